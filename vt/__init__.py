"""Bounded exhaustive exploration checks for vsoch/shroud (see /verif/DESIGN.md)."""
