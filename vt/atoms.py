"""The admitted declaration grammar G as a table of atoms, the instrumented subject library,
and the reference model of what a call delivers and hands back.

An *atom* is one documented argument or result pattern (docs/*.rst), with: the YAML
declaration text, the C/C++ parameter(s) of the subject function, the value alphabet, the
code the subject runs (log what was received, write deterministic outputs), and the reference
model (what the library must have received, what the caller must observe).  Front ends
(vt/drv_f.py, vt/drv_c.py, vt/drv_py.py, vt/drv_lua.py) add the caller-side code per atom.

Rendering of values is bit exact and the same in every language:
  integers decimal; bool 0/1; double / float as the decimal integer holding their bit pattern;
  char as its code; strings as  <len>:[<text>] ; arrays as <n>:{e1,e2,...}.
"""
from __future__ import annotations

import struct

# ---------------------------------------------------------------- native types
INT_MAX = 2147483647
LONG_MAX = 9223372036854775807


class NT(object):
    """A native scalar type."""

    def __init__(self, cname, fdecl, fkind, cls, vals, cfmt=None, langs=("c", "cxx"), hdr=None):
        self.cname = cname
        self.id = cname.replace(" ", "_")
        self.fdecl = fdecl  # Fortran type text
        self.fkind = fkind
        self.cls = cls  # 'int' | 'real8' | 'real4'
        self.vals = vals
        self.langs = langs
        self.hdr = hdr


NATIVE = {}
for _t in [
    NT("int", "integer(C_INT)", "C_INT", "int", [0, 1, -1, INT_MAX, -INT_MAX - 1]),
    NT("long", "integer(C_LONG)", "C_LONG", "int", [0, -1, LONG_MAX, -LONG_MAX - 1]),
    NT("short", "integer(C_SHORT)", "C_SHORT", "int", [0, -1, 32767, -32768]),
    NT("long long", "integer(C_LONG_LONG)", "C_LONG_LONG", "int", [0, 1, LONG_MAX, -LONG_MAX - 1]),
    NT("unsigned int", "integer(C_INT)", "C_INT", "int", [0, 1, INT_MAX]),
    NT("size_t", "integer(C_SIZE_T)", "C_SIZE_T", "int", [0, 1, LONG_MAX], hdr="<stddef.h>"),
    NT("int32_t", "integer(C_INT32_T)", "C_INT32_T", "int", [0, -1, INT_MAX, -INT_MAX - 1], hdr="<stdint.h>"),
    NT("int64_t", "integer(C_INT64_T)", "C_INT64_T", "int", [0, -1, LONG_MAX, -LONG_MAX - 1], hdr="<stdint.h>"),
    NT("uint64_t", "integer(C_INT64_T)", "C_INT64_T", "int", [0, 1, LONG_MAX], hdr="<stdint.h>"),
    NT("uint32_t", "integer(C_INT32_T)", "C_INT32_T", "int", [0, 1, INT_MAX], hdr="<stdint.h>"),
    NT("int16_t", "integer(C_INT16_T)", "C_INT16_T", "int", [0, -1, 32767, -32768], hdr="<stdint.h>"),
    NT("uint16_t", "integer(C_INT16_T)", "C_INT16_T", "int", [0, 1, 32767], hdr="<stdint.h>"),
    NT("int8_t", "integer(C_INT8_T)", "C_INT8_T", "int", [0, -1, 127, -128], hdr="<stdint.h>"),
    NT("uint8_t", "integer(C_INT8_T)", "C_INT8_T", "int", [0, 1, 127], hdr="<stdint.h>"),
    NT("unsigned long", "integer(C_LONG)", "C_LONG", "int", [0, 1, LONG_MAX]),
    NT("unsigned short", "integer(C_SHORT)", "C_SHORT", "int", [0, 1, 32767]),
    NT("unsigned long long", "integer(C_LONG_LONG)", "C_LONG_LONG", "int", [0, 1, LONG_MAX]),
    NT("float", "real(C_FLOAT)", "C_FLOAT", "real4", [0.0, -1.5, 3.4028234663852886e38, 1.1754943508222875e-38]),
    NT("double", "real(C_DOUBLE)", "C_DOUBLE", "real8", [0.0, -1.5, 1.7976931348623157e308, 2.2250738585072014e-308, 1048576.125]),
]:
    NATIVE[_t.cname] = _t


def rnd(t, v):
    """Render a native value."""
    if t.cls == "int":
        return str(int(v))
    if t.cls == "real8":
        return str(struct.unpack("<q", struct.pack("<d", v))[0])
    return str(struct.unpack("<i", struct.pack("<f", v))[0])


def rs(s):
    return "%d:[%s]" % (len(s), s)


def ra(t, vals):
    return "%d:{%s}" % (len(vals), ",".join(rnd(t, v) for v in vals))


# deterministic transformations the subject applies to in/inout values
def flip(t, v):
    """inout scalar: the library hands back flip(v)."""
    if t.cls == "int":
        return v ^ 5 if t.cname not in ("unsigned int", "size_t") else (v ^ 5)
    return -v


def outval(t, k=0):
    """intent(out) scalar: a fixed value per type."""
    if t.cls == "int":
        return [42, -7, 100][k % 3] if t.cname not in ("unsigned int", "size_t") else [42, 7, 100][k % 3]
    return [2.5, -0.125, 1024.0][k % 3]


# ---------------------------------------------------------------- C++ side formatting helpers (subject library prelude)
SUBJECT_PRELUDE = r"""
#include <stdio.h>
#include <stdlib.h>
#include <string.h>
#include <stdint.h>
#include <stddef.h>
#ifndef __cplusplus
#include <stdbool.h>
#endif
static FILE *vt_fp = NULL;
static void vt_open(void) {
    if (!vt_fp) { const char *p = getenv("VT_TRACE"); vt_fp = fopen(p ? p : "trace.txt", "a"); }
}
static void vt_txt(const char *s) { vt_open(); fputs(s, vt_fp); fflush(vt_fp); }
static void vt_i(long long v) { vt_open(); fprintf(vt_fp, "%lld", v); fflush(vt_fp); }
static void vt_d(double v) { long long b; memcpy(&b, &v, 8); vt_i(b); }
static void vt_f(float v) { int b; memcpy(&b, &v, 4); vt_i(b); }
static void vt_s(const char *s, long n) { vt_open(); if (!s) { fputs("NULL", vt_fp); } else { fprintf(vt_fp, "%ld:[", n); fwrite(s, 1, n, vt_fp); fputs("]", vt_fp); } fflush(vt_fp); }
static void vt_z(const char *s) { vt_s(s, s ? (long) strlen(s) : 0); }
#ifdef __cplusplus
extern "C"
#endif
void vt_marker(const char *s) { vt_txt("CALL "); vt_txt(s); vt_txt("\n"); }
"""


def cfmt(t, expr):
    """C statement that logs a native value."""
    if t.cls == "int":
        return "vt_i((long long)(%s));" % expr
    if t.cls == "real8":
        return "vt_d(%s);" % expr
    return "vt_f(%s);" % expr


def clit(t, v):
    """C literal for a native value."""
    if t.cls == "int":
        if v == -INT_MAX - 1:
            return "(-2147483647 - 1)"
        if v == -LONG_MAX - 1:
            return "(-9223372036854775807LL - 1)"
        if abs(v) > INT_MAX:
            return "%dLL" % v
        return str(v)
    if t.cls == "real8":
        return repr(float(v))
    return repr(float(v)) + "f"


# ---------------------------------------------------------------- atoms
class Atom(object):
    """Base: one argument pattern.  Subclasses fill in the pieces."""

    kind = "arg"
    langs = ("c", "cxx")
    py = True  # in the numpy-free Python subset
    lua = False

    _vals = None

    def __init__(self, aid):
        self.id = aid

    def with_values(self, vals):
        """Replace the value alphabet (used by the exhaustive string sweep)."""
        self._vals = list(vals)
        return self

    # YAML declaration fragment(s) for the parameter(s) this atom contributes
    def decl(self, n):
        raise NotImplementedError

    # parameter text(s) of the subject function
    def cparams(self, n, lang):
        raise NotImplementedError

    # C/C++ statements of the subject body: log (appends ' name=value' to the RECV line), then write outputs
    def body(self, n, lang):
        raise NotImplementedError

    # value alphabet (inputs the caller chooses)
    def values(self):
        return [None]

    # reference model: ' name=value' text the library logs for input v
    def recv(self, n, v):
        raise NotImplementedError

    # reference model: what the caller observes after the call: list of rendered items
    def observe(self, v):
        return []

    def needs(self):
        """extra declarations the library needs: subset of {'enum','class','struct'}"""
        return set()


class Val(Atom):
    """A1: T a by value."""

    lua = True

    def __init__(self, t):
        Atom.__init__(self, "val_" + t.id)
        self.t = t
        self.lua = True

    def decl(self, n):
        return ["%s %s" % (self.t.cname, n)]

    def cparams(self, n, lang):
        return ["%s %s" % (self.t.cname, n)]

    def body(self, n, lang):
        return ['vt_txt(" %s=");' % n, cfmt(self.t, n)], []

    def values(self):
        return self.t.vals

    def recv(self, n, v):
        return " %s=%s" % (n, rnd(self.t, v))


class BoolVal(Atom):
    lua = True

    def __init__(self):
        Atom.__init__(self, "val_bool")

    def decl(self, n):
        return ["bool %s" % n]

    def cparams(self, n, lang):
        return ["bool %s" % n]

    def body(self, n, lang):
        return ['vt_txt(" %s=");' % n, "vt_i(%s ? 1 : 0);" % n], []

    def values(self):
        return [True, False]

    def recv(self, n, v):
        return " %s=%d" % (n, 1 if v else 0)


class CharVal(Atom):
    def __init__(self):
        Atom.__init__(self, "val_char")

    def decl(self, n):
        return ["char %s" % n]

    def cparams(self, n, lang):
        return ["char %s" % n]

    def body(self, n, lang):
        return ['vt_txt(" %s=");' % n, "vt_i((long long)(unsigned char) %s);" % n], []

    def values(self):
        return ["a", " ", "Z"]

    def recv(self, n, v):
        return " %s=%d" % (n, ord(v))


class Ptr(Atom):
    """A3/A4: scalar through a pointer or reference, intent in / out / inout."""

    def __init__(self, t, intent, ref=False, bare=False):
        Atom.__init__(self, "%s_%s_%s%s" % ("ref" if ref else "ptr", intent, t.id, "_bare" if bare else ""))
        self.t = t
        self.intent = intent
        self.ref = ref
        self.bare = bare  # no +intent written: a non-const pointer / reference is intent(inout) by default
        if ref:
            self.langs = ("cxx",)

    def decl(self, n):
        sym = "&" if self.ref else "*"
        if self.intent == "in":
            return ["const %s %s%s" % (self.t.cname, sym, n)]
        if self.bare:
            return ["%s %s%s" % (self.t.cname, sym, n)]
        return ["%s %s%s +intent(%s)" % (self.t.cname, sym, n, self.intent)]

    def cparams(self, n, lang):
        sym = "&" if self.ref else "*"
        return ["%s%s %s%s" % ("const " if self.intent == "in" else "", self.t.cname, sym, n)]

    def body(self, n, lang):
        acc = n if self.ref else "*" + n
        log, post = [], []
        if self.intent in ("in", "inout"):
            log = ['vt_txt(" %s=");' % n, cfmt(self.t, acc)]
        if self.intent == "inout":
            if self.t.cls == "int":
                post = ["%s = (%s)((%s) ^ 5);" % (acc, self.t.cname, acc)]
            else:
                post = ["%s = -(%s);" % (acc, acc)]
        elif self.intent == "out":
            post = ["%s = %s;" % (acc, clit(self.t, outval(self.t)))]
        return log, post

    def values(self):
        return self.t.vals if self.intent != "out" else [None]

    def recv(self, n, v):
        return " %s=%s" % (n, rnd(self.t, v)) if self.intent != "out" else ""

    def observe(self, v):
        if self.intent == "inout":
            return [rnd(self.t, flip(self.t, v))]
        if self.intent == "out":
            return [rnd(self.t, outval(self.t))]
        return []


class BoolPtr(Atom):
    def __init__(self, intent):
        Atom.__init__(self, "ptr_%s_bool" % intent)
        self.intent = intent

    def decl(self, n):
        return ["bool *%s +intent(%s)" % (n, self.intent)]

    def cparams(self, n, lang):
        return ["bool *%s" % n]

    def body(self, n, lang):
        log = ['vt_txt(" %s=");' % n, "vt_i(*%s ? 1 : 0);" % n] if self.intent != "out" else []
        post = ["*%s = !*%s;" % (n, n)] if self.intent == "inout" else ["*%s = true;" % n]
        return log, post

    def values(self):
        return [True, False] if self.intent != "out" else [None]

    def recv(self, n, v):
        return " %s=%d" % (n, 1 if v else 0) if self.intent != "out" else ""

    def observe(self, v):
        return ["0" if v else "1"] if self.intent == "inout" else ["1"]


ARR_VALS = {"int": [[], [7], [3, -1, 2147483647]], "double": [[], [-1.5], [0.0, 2.25, 1.7976931348623157e308]],
            "long": [[], [5], [1, -2, 3]], "float": [[], [1.5], [0.5, -2.0, 4.0]]}


for _tn, _t in NATIVE.items():
    if _tn not in ARR_VALS:
        # three elements: small, the type's last boundary value, small (an element of the wrong width shifts its neighbours)
        ARR_VALS[_tn] = [[], [_t.vals[1]], [_t.vals[1], _t.vals[-1] if _t.cls != "int" or len(_t.vals) <= 3 else _t.vals[-2], _t.vals[0]]]


class Arr(Atom):
    """A6: array with rank(1) and an implied size argument; intent in / inout."""

    def __init__(self, t, intent, nt="int"):
        Atom.__init__(self, "arr_%s_%s%s" % (intent, t.id, "" if nt == "int" else "_n" + nt))
        self.t = t
        self.intent = intent
        self.nt = nt  # type of the implied size argument

    def decl(self, n):
        if self.intent == "in":
            return ["const %s *%s +rank(1)" % (self.t.cname, n), "%s n%s +implied(size(%s))" % (self.nt, n, n)]
        return ["%s *%s +rank(1)+intent(inout)" % (self.t.cname, n), "%s n%s +implied(size(%s))" % (self.nt, n, n)]

    def cparams(self, n, lang):
        return ["%s%s *%s" % ("const " if self.intent == "in" else "", self.t.cname, n), "%s n%s" % (self.nt, n)]

    def body(self, n, lang):
        log = ['vt_txt(" %s=");' % n, "vt_i(n%s);" % n, 'vt_txt(":{");',
               "{ int vt_k; for (vt_k = 0; vt_k < n%s; vt_k++) { if (vt_k) vt_txt(\",\"); %s } }" % (n, cfmt(self.t, "%s[vt_k]" % n)),
               'vt_txt("}");']
        post = []
        if self.intent == "inout":
            op = "%s[vt_k] = (%s)(%s[vt_k] ^ 5);" % (n, self.t.cname, n) if self.t.cls == "int" else "%s[vt_k] = -%s[vt_k];" % (n, n)
            post = ["{ int vt_k; for (vt_k = 0; vt_k < n%s; vt_k++) { %s } }" % (n, op)]
        return log, post

    def values(self):
        return ARR_VALS[self.t.cname]

    def recv(self, n, v):
        return " %s=%s" % (n, ra(self.t, v))

    def observe(self, v):
        return [ra(self.t, [flip(self.t, x) for x in v])] if self.intent == "inout" else []


class ArrOut(Atom):
    """T *v +intent(out)+dimension(n), int n : the caller supplies n and an array of that size."""

    def __init__(self, t):
        Atom.__init__(self, "arr_out_%s" % t.id)
        self.t = t

    def decl(self, n):
        return ["%s *%s +intent(out)+dimension(n%s)" % (self.t.cname, n, n), "int n%s" % n]

    def cparams(self, n, lang):
        return ["%s *%s" % (self.t.cname, n), "int n%s" % n]

    def body(self, n, lang):
        log = ['vt_txt(" n%s=");' % n, "vt_i(n%s);" % n]
        post = ["{ int vt_k; for (vt_k = 0; vt_k < n%s; vt_k++) { %s[vt_k] = (%s)(vt_k * 3 + 1); } }" % (n, n, self.t.cname)]
        return log, post

    def values(self):
        return [0, 1, 3]

    def recv(self, n, v):
        return " n%s=%d" % (n, v)

    def observe(self, v):
        return [ra(self.t, [self.t.cls == "int" and (k * 3 + 1) or float(k * 3 + 1) for k in range(v)])]


STR_VALS = ["", "a", "ab  ", " a b", "abcdefgh"]


class CStrIn(Atom):
    """const char *s : the library receives the text without trailing blanks, NUL terminated."""

    lua = False  # no corpus description wraps a char* argument for Lua; wrapl.py emits undeclared variables for it

    def __init__(self):
        Atom.__init__(self, "cstr_in")

    def decl(self, n):
        return ["const char *%s" % n]

    def cparams(self, n, lang):
        return ["const char *%s" % n]

    def body(self, n, lang):
        return ['vt_txt(" %s=");' % n, "vt_z(%s);" % n], []

    def values(self):
        return STR_VALS

    def recv(self, n, v):
        return " %s=%s" % (n, rs(v.rstrip(" ")))

    # the C and Python callers pass the text as is (no trimming there)
    def recv_exact(self, n, v):
        return " %s=%s" % (n, rs(v))


class CStrOut(Atom):
    """char *s +intent(out)+charlen(N): the library writes a short NUL terminated text."""

    TEXT = "hi y"

    def __init__(self):
        Atom.__init__(self, "cstr_out")

    def decl(self, n):
        return ["char *%s +intent(out)+charlen(16)" % n]

    def cparams(self, n, lang):
        return ["char *%s" % n]

    def body(self, n, lang):
        return [], ['strcpy(%s, "%s");' % (n, self.TEXT)]

    def values(self):
        # the declared length of the caller's variable (must hold the text and its NUL)
        return [5, 6, 12]

    def recv(self, n, v):
        return ""

    def observe(self, v):
        return [rs(self.TEXT.ljust(v))]


class CStrInout(Atom):
    """char *s +intent(inout): upper-cases the first character in place."""

    def __init__(self):
        Atom.__init__(self, "cstr_inout")

    def decl(self, n):
        return ["char *%s +intent(inout)" % n]

    def cparams(self, n, lang):
        return ["char *%s" % n]

    def body(self, n, lang):
        return ['vt_txt(" %s=");' % n, "vt_z(%s);" % n], ["if (%s[0] >= 'a' && %s[0] <= 'z') %s[0] = (char)(%s[0] - 32);" % (n, n, n, n)]

    def values(self):
        return ["a", "ab  ", " a b", "abcdefgh"]

    def recv(self, n, v):
        return " %s=%s" % (n, rs(v.rstrip(" ")))

    def observe(self, v):
        t = v.rstrip(" ")
        t = (t[0].upper() + t[1:]) if t else t
        return [rs(t.ljust(len(v)))]


class CStrInoutLen(Atom):
    """char *s +intent(inout) where the library changes the length: a text of two or more characters is cut to
    its first character, a shorter one gets "+x" appended (the caller's variable is long enough)."""

    py = False
    lua = False
    c_api = False  # exercised through Fortran only

    def __init__(self):
        Atom.__init__(self, "cstr_inout_len")

    def decl(self, n):
        return ["char *%s +intent(inout)" % n]

    def cparams(self, n, lang):
        return ["char *%s" % n]

    def body(self, n, lang):
        return ['vt_txt(" %s=");' % n, "vt_z(%s);" % n], ["if (strlen(%s) >= 2) %s[1] = 0; else strcat(%s, \"+x\");" % (n, n, n)]

    def values(self):
        # (text, declared length of the caller's variable); the grown text always fits
        return [("a", 5), ("abcdef", 6), ("ab  ", 4), ("", 3), ("abc", 8), ("a", 3)]

    def _in(self, v):
        return v[0].ljust(v[1])[: v[1]].rstrip(" ")

    def recv(self, n, v):
        return " %s=%s" % (n, rs(self._in(v)))

    def observe(self, v):
        t = self._in(v)
        res = t[0] if len(t) >= 2 else t + "+x"
        return [rs(res[: v[1]].ljust(v[1]))]


class StrIn(Atom):
    """const std::string &s / std::string s / const std::string *s"""

    langs = ("cxx",)
    lua = True

    def __init__(self, form):
        Atom.__init__(self, "str_in_" + form)
        self.form = form
        self.lua = form == "cref"  # the only std::string argument form the corpus wraps for Lua

    def _p(self, n):
        return {"cref": "const std::string &%s", "val": "std::string %s", "cptr": "const std::string *%s"}[self.form] % n

    def decl(self, n):
        return [self._p(n)]

    def cparams(self, n, lang):
        return [self._p(n)]

    def body(self, n, lang):
        acc = "%s->" % n if self.form == "cptr" else "%s." % n
        return ['vt_txt(" %s=");' % n, "vt_s(%sdata(), (long) %ssize());" % (acc, acc)], []

    def values(self):
        return STR_VALS

    def recv(self, n, v):
        return " %s=%s" % (n, rs(v.rstrip(" ")))

    def recv_exact(self, n, v):
        return " %s=%s" % (n, rs(v))


class StrOut(Atom):
    """std::string &s +intent(out|inout)"""

    langs = ("cxx",)
    TEXT = "hello"

    def __init__(self, intent, ptr=False, bare=False):
        Atom.__init__(self, "str_%s%s%s" % (intent, "_ptr" if ptr else "", "_bare" if bare else ""))
        self.intent = intent
        self.ptr = ptr
        self.bare = bare  # no +intent written: defaults to intent(inout)

    def decl(self, n):
        if self.bare:
            return ["std::string %s%s" % ("*" if self.ptr else "&", n)]
        return ["std::string %s%s +intent(%s)" % ("*" if self.ptr else "&", n, self.intent)]

    def cparams(self, n, lang):
        return ["std::string %s%s" % ("*" if self.ptr else "&", n)]

    def body(self, n, lang):
        acc = "(*%s)" % n if self.ptr else n
        log = ['vt_txt(" %s=");' % n, "vt_s(%s.data(), (long) %s.size());" % (acc, acc)] if self.intent == "inout" else []
        post = ['%s = "%s";' % (acc, self.TEXT)] if self.intent == "out" else ['%s += "+x";' % acc]
        return log, post

    def values(self):
        # out: declared length of the caller's variable; inout: (text, declared length)
        if self.intent == "out":
            return [0, 1, 4, 5, 6, 9]
        return [("a", 1), ("a", 5), ("ab  ", 4), ("ab", 9), ("", 3)]

    def recv(self, n, v):
        if self.intent == "out":
            return ""
        return " %s=%s" % (n, rs(v[0].ljust(v[1]).rstrip(" ")))

    def observe(self, v):
        if self.intent == "out":
            return [rs(self.TEXT[:v].ljust(v))]
        text, ln = v
        res = text.ljust(ln).rstrip(" ") + "+x"
        return [rs(res[:ln].ljust(ln))]


class Vec(Atom):
    """std::vector<T> &v : in / out / inout / out+deref(allocatable)"""

    langs = ("cxx",)
    py = True

    def __init__(self, t, intent, bare=False):
        Atom.__init__(self, "vec_%s_%s%s" % (intent, t.id, "_bare" if bare else ""))
        self.t = t
        self.intent = intent
        self.bare = bare  # no +intent written: defaults to intent(inout)

    def decl(self, n):
        if self.bare:
            return ["std::vector<%s> &%s" % (self.t.cname, n)]
        if self.intent == "in":
            return ["const std::vector<%s> &%s" % (self.t.cname, n)]
        if self.intent == "alloc":
            return ["std::vector<%s> &%s +intent(out)+deref(allocatable)" % (self.t.cname, n)]
        return ["std::vector<%s> &%s +intent(%s)" % (self.t.cname, n, self.intent)]

    def cparams(self, n, lang):
        return ["%sstd::vector<%s> &%s" % ("const " if self.intent == "in" else "", self.t.cname, n)]

    def body(self, n, lang):
        log = []
        if self.intent in ("in", "inout"):
            log = ['vt_txt(" %s=");' % n, "vt_i((long long) %s.size());" % n, 'vt_txt(":{");',
                   "for (size_t vt_k = 0; vt_k < %s.size(); vt_k++) { if (vt_k) vt_txt(\",\"); %s }" % (n, cfmt(self.t, "%s[vt_k]" % n)),
                   'vt_txt("}");']
        post = []
        if self.intent == "inout":
            op = "%s[vt_k] = (%s)(%s[vt_k] ^ 5);" % (n, self.t.cname, n) if self.t.cls == "int" else "%s[vt_k] = -%s[vt_k];" % (n, n)
            post = ["for (size_t vt_k = 0; vt_k < %s.size(); vt_k++) { %s }" % (n, op), "%s.push_back((%s) 9);" % (n, self.t.cname)]
        elif self.intent in ("out", "alloc"):
            post = ["%s.clear();" % n] + ["%s.push_back((%s) %d);" % (n, self.t.cname, k) for k in (4, 5, 6)]
        return log, post

    def values(self):
        if self.intent in ("in", "inout"):
            return ARR_VALS[self.t.cname]
        if self.intent == "out":
            return [0, 2, 3, 5]  # size of the caller's array
        return [None]

    def recv(self, n, v):
        return " %s=%s" % (n, ra(self.t, v)) if self.intent in ("in", "inout") else ""

    def lib_result(self, v):
        """what the vector holds when the function returns"""
        if self.intent == "inout":
            return [flip(self.t, x) for x in v] + [9 if self.t.cls == "int" else 9.0]
        return [4, 5, 6] if self.t.cls == "int" else [4.0, 5.0, 6.0]

    def observe(self, v):
        if self.intent == "in":
            return []
        res = self.lib_result(v)
        if self.intent == "alloc":
            return [ra(self.t, res)]
        if self.intent == "inout":
            # copy back truncated to the caller's extent
            return [ra(self.t, res[: len(v)])]
        # intent(out) into an array of v elements: first min(v,3) copied, the rest untouched (driver pre-fills with -9)
        n = v
        fill = -9 if self.t.cls == "int" else -9.0
        return [ra(self.t, (res + [fill] * n)[:n] if n > len(res) else res[:n])]


class EnumVal(Atom):
    langs = ("c", "cxx")

    def __init__(self):
        Atom.__init__(self, "val_enum")

    def decl(self, n):
        return ["Color %s" % n]

    def cparams(self, n, lang):
        return ["%sColor %s" % ("enum " if lang == "c" else "", n)]

    def body(self, n, lang):
        return ['vt_txt(" %s=");' % n, "vt_i((long long) %s);" % n], []

    def values(self):
        return [("RED", 0), ("GREEN", 3), ("BLUE", 4)]

    def recv(self, n, v):
        return " %s=%d" % (n, v[1])

    def needs(self):
        return {"enum"}


class ClsArg(Atom):
    """class argument: Cls *c / const Cls &c  (the library logs the object's id)"""

    langs = ("cxx",)
    py = True

    def __init__(self, form):
        Atom.__init__(self, "cls_" + form)
        self.form = form

    def _p(self, n):
        return {"ptr": "Cls *%s", "cref": "const Cls &%s"}[self.form] % n

    def decl(self, n):
        return [self._p(n)]

    def cparams(self, n, lang):
        return [self._p(n)]

    def body(self, n, lang):
        acc = "%s->" % n if self.form == "ptr" else "%s." % n
        return ['vt_txt(" %s=");' % n, "vt_i(%sid());" % acc], []

    def values(self):
        return [11, 22]  # ids of two live objects the driver creates

    def recv(self, n, v):
        return " %s=%d" % (n, v)

    def needs(self):
        return {"class"}


class StructArg(Atom):
    """struct argument: Pt x / const Pt *x / Pt *x +intent(inout|out) / Pt &x / const Pt &x.
    The library logs both fields; inout flips both, out sets both."""

    py = False  # the numpy-free Python subset has no struct arguments
    lua = False
    FORMS = {"val": "Pt %s", "cptr": "const Pt *%s", "ptr_inout": "Pt *%s", "ptr_out": "Pt *%s", "ref_inout": "Pt &%s", "cref": "const Pt &%s"}

    def __init__(self, form):
        Atom.__init__(self, "struct_" + form)
        self.form = form
        self.intent = "inout" if form.endswith("inout") else ("out" if form.endswith("out") else "in")
        if "ref" in form:
            self.langs = ("cxx",)

    def decl(self, n):
        d = self.FORMS[self.form] % n
        if self.intent != "in":
            d += " +intent(%s)" % self.intent
        return [d]

    def cparams(self, n, lang):
        d = self.FORMS[self.form] % n
        return [d]

    def body(self, n, lang):
        acc = "%s->" % n if "ptr" in self.form else "%s." % n
        log, post = [], []
        ti, td = NATIVE["int"], NATIVE["double"]
        if self.intent != "out":
            log = ['vt_txt(" %s.i=");' % n, cfmt(ti, acc + "i"), 'vt_txt(" %s.d=");' % n, cfmt(td, acc + "d")]
        if self.intent == "inout":
            post = ["%si = %si ^ 5;" % (acc, acc), "%sd = -(%sd);" % (acc, acc)]
        elif self.intent == "out":
            post = ["%si = %s;" % (acc, clit(ti, outval(ti))), "%sd = %s;" % (acc, clit(td, outval(td)))]
        return log, post

    def values(self):
        return [(9, 1.5), (-2147483647 - 1, -0.0)] if self.intent != "out" else [None]

    def recv(self, n, v):
        if self.intent == "out":
            return ""
        return " %s.i=%s %s.d=%s" % (n, rnd(NATIVE["int"], v[0]), n, rnd(NATIVE["double"], v[1]))

    def observe(self, v):
        ti, td = NATIVE["int"], NATIVE["double"]
        if self.intent == "inout":
            return [rnd(ti, flip(ti, v[0])), rnd(td, flip(td, v[1]))]
        if self.intent == "out":
            return [rnd(ti, outval(ti)), rnd(td, outval(td))]
        return []

    def needs(self):
        return {"struct"}


class PtrPtrOut(Atom):
    """T **a +intent(out)+dimension(3) / +dimension(na) with 'int *na +intent(out)+hidden':
    the library hands back a pointer to its own array; Fortran receives a pointer array."""

    py = False
    lua = False

    def __init__(self, t, form):
        Atom.__init__(self, "pp_out_%s_%s" % (form, t.id))
        self.t = t
        self.form = form  # 'fixed' | 'dyn'

    def decl(self, n):
        if self.form == "fixed":
            return ["%s **%s +intent(out)+dimension(3)" % (self.t.cname, n)]
        return ["%s **%s +intent(out)+dimension(n%s)" % (self.t.cname, n, n), "int *n%s +intent(out)+hidden" % n]

    def cparams(self, n, lang):
        if self.form == "fixed":
            return ["%s **%s" % (self.t.cname, n)]
        return ["%s **%s" % (self.t.cname, n), "int *n%s" % n]

    def body(self, n, lang):
        arr = "vt_pp_%s_%s" % (self.id, n)
        post = ["{ static %s %s[4]; int vt_k; for (vt_k = 0; vt_k < 4; vt_k++) %s[vt_k] = (%s)(30 + vt_k); *%s = %s; }" % (self.t.cname, arr, arr, self.t.cname, n, arr)]
        if self.form == "dyn":
            post.append("*n%s = 4;" % n)
        return [], post

    def values(self):
        return [None]

    def recv(self, n, v):
        return ""

    def observe(self, v):
        k = 3 if self.form == "fixed" else 4
        return [ra(self.t, [(30 + i) if self.t.cls == "int" else float(30 + i) for i in range(k)])]


class VoidPtr(Atom):
    """void *p by value: the library reads the int it points to"""

    py = False
    lua = False

    def __init__(self):
        Atom.__init__(self, "voidptr")

    def decl(self, n):
        return ["void *%s" % n]

    def cparams(self, n, lang):
        return ["void *%s" % n]

    def body(self, n, lang):
        return ['vt_txt(" %s=");' % n, "vt_i(*(int *) %s);" % n], ["*(int *) %s = *(int *) %s + 1;" % (n, n)]

    def values(self):
        return [41, -7]

    def recv(self, n, v):
        return " %s=%d" % (n, v)

    def observe(self, v):
        return [rnd(NATIVE["int"], v + 1)]


class PtrPtrIn(Atom):
    """T **x +intent(in): the caller hands over the address of its own table of row pointers (two rows of two);
    Fortran passes a type(C_PTR) by value"""

    py = False
    lua = False

    def __init__(self, t):
        Atom.__init__(self, "pp_in_" + t.id)
        self.t = t

    def decl(self, n):
        return ["%s **%s +intent(in)" % (self.t.cname, n)]

    def cparams(self, n, lang):
        return ["%s **%s" % (self.t.cname, n)]

    def body(self, n, lang):
        return ['vt_txt(" %s=");' % n, cfmt(self.t, "%s[0][0]" % n), 'vt_txt(",");', cfmt(self.t, "%s[0][1]" % n), 'vt_txt(",");', cfmt(self.t, "%s[1][0]" % n),
                'vt_txt(",");', cfmt(self.t, "%s[1][1]" % n)], []

    def values(self):
        return [(1, 2, 3, 4), (-1, 0, 7, 9)]

    def recv(self, n, v):
        return " %s=%s" % (n, ",".join(rnd(self.t, x) for x in v))

    def observe(self, v):
        return []


class StrArrIn(Atom):
    """char **x +intent(in)+rank(1) with int cntx +implied(size(x)): an array of blank padded strings arrives as
    NUL-terminated, trimmed C strings"""

    py = False
    lua = False

    def __init__(self):
        Atom.__init__(self, "strarr_in")

    def decl(self, n):
        return ["char **%s +intent(in)+rank(1)" % n, "int cnt%s +implied(size(%s))" % (n, n)]

    def cparams(self, n, lang):
        return ["char **%s" % n, "int cnt%s" % n]

    def body(self, n, lang):
        return ['vt_txt(" %s=");' % n, "{ int vt_k; vt_i(cnt%s); vt_txt(\":{\"); for (vt_k = 0; vt_k < cnt%s; vt_k++) { if (vt_k) vt_txt(\",\"); vt_z(%s[vt_k]); } vt_txt(\"}\"); }" % (n, n, n)], []

    def values(self):
        # (declared length, texts)
        return [(4, ["ab", "c"]), (3, ["", "a b", "xyz"]), (1, ["q"])]

    def recv(self, n, v):
        ln, texts = v
        return " %s=%d:{%s}" % (n, len(texts), ",".join(rs(t.rstrip(" ")) for t in texts))

class PtrRefOut(PtrPtrOut):
    """T *&a +intent(out)+dimension(3) / +dimension(na) with 'int &na +intent(out)+hidden' (C++): as PtrPtrOut, through references"""

    langs = ("cxx",)

    def __init__(self, t, form):
        PtrPtrOut.__init__(self, t, form)
        self.id = "pref_out_%s_%s" % (form, t.id)

    def decl(self, n):
        if self.form == "fixed":
            return ["%s *&%s +intent(out)+dimension(3)" % (self.t.cname, n)]
        return ["%s *&%s +intent(out)+dimension(n%s)" % (self.t.cname, n, n), "int &n%s +intent(out)+hidden" % n]

    def cparams(self, n, lang):
        if self.form == "fixed":
            return ["%s *&%s" % (self.t.cname, n)]
        return ["%s *&%s" % (self.t.cname, n), "int &n%s" % n]

    def body(self, n, lang):
        arr = "vt_pp_%s_%s" % (self.id, n)
        post = ["{ static %s %s[4]; int vt_k; for (vt_k = 0; vt_k < 4; vt_k++) %s[vt_k] = (%s)(30 + vt_k); %s = %s; }" % (self.t.cname, arr, arr, self.t.cname, n, arr)]
        if self.form == "dyn":
            post.append("n%s = 4;" % n)
        return [], post


class PtrPtrConstOut(PtrPtrOut):
    """const T **a +intent(out)+dimension(3): the library's array is read-only for the caller"""

    def __init__(self, t):
        PtrPtrOut.__init__(self, t, "fixed")
        self.id = "ppc_out_" + t.id
        self.const = True

    def decl(self, n):
        return ["const %s **%s +intent(out)+dimension(3)" % (self.t.cname, n)]

    def cparams(self, n, lang):
        return ["const %s **%s" % (self.t.cname, n)]


class PtrPtrRaw(Atom):
    """T **a +intent(out)+deref(raw): the caller receives the address itself (type(C_PTR) in Fortran)"""

    py = False
    lua = False

    def __init__(self, t):
        Atom.__init__(self, "pp_raw_" + t.id)
        self.t = t

    def decl(self, n):
        return ["%s **%s +intent(out)+deref(raw)" % (self.t.cname, n)]

    def cparams(self, n, lang):
        return ["%s **%s" % (self.t.cname, n)]

    def body(self, n, lang):
        arr = "vt_pp_%s_%s" % (self.id, n)
        return [], ["{ static %s %s[4]; int vt_k; for (vt_k = 0; vt_k < 4; vt_k++) %s[vt_k] = (%s)(50 + vt_k); *%s = %s; }" % (self.t.cname, arr, arr, self.t.cname, n, arr)]

    def recv(self, n, v):
        return ""

    def observe(self, v):
        return [ra(self.t, [(50 + i) if self.t.cls == "int" else float(50 + i) for i in range(4)])]


class ArrOutAlloc(Atom):
    """int n, T *v +intent(out)+deref(allocatable)+dimension(n): the wrapper allocates the caller's array to n elements"""

    py = False
    lua = False

    def __init__(self, t):
        Atom.__init__(self, "arr_outalloc_%s" % t.id)
        self.t = t

    def decl(self, n):
        return ["int n%s" % n, "%s *%s +intent(out)+deref(allocatable)+dimension(n%s)" % (self.t.cname, n, n)]

    def cparams(self, n, lang):
        return ["int n%s" % n, "%s *%s" % (self.t.cname, n)]

    def body(self, n, lang):
        log = ['vt_txt(" n%s=");' % n, "vt_i(n%s);" % n]
        post = ["{ int vt_k; for (vt_k = 0; vt_k < n%s; vt_k++) { %s[vt_k] = (%s)(vt_k * 5 + 2); } }" % (n, n, self.t.cname)]
        return log, post

    def values(self):
        return [0, 1, 3]

    def recv(self, n, v):
        return " n%s=%d" % (n, v)

    def observe(self, v):
        return [ra(self.t, [self.t.cls == "int" and (k * 5 + 2) or float(k * 5 + 2) for k in range(v)])]


class VecInoutAlloc(Vec):
    """std::vector<T> &v +intent(inout)+deref(allocatable): the caller's allocatable array is re-allocated to the
    size the library left the vector with (no truncation to the incoming extent)"""

    py = False

    def __init__(self, t):
        Vec.__init__(self, t, "inout")
        self.id = "vec_inoutalloc_" + t.id

    def decl(self, n):
        return ["std::vector<%s> &%s +intent(inout)+deref(allocatable)" % (self.t.cname, n)]

    def observe(self, v):
        return [ra(self.t, self.lib_result(v))]


class VoidPP(Atom):
    """void **p +intent(in) (the library reads the int the caller's pointer points to), void **p +intent(out) and
    void *&p +intent(out) (the library hands out the address of its own int)"""

    py = False
    lua = False

    def __init__(self, form):
        Atom.__init__(self, "voidpp_" + form)
        self.form = form  # 'in' | 'out' | 'refout'
        if form == "refout":
            self.langs = ("cxx",)

    def decl(self, n):
        if self.form == "refout":
            return ["void *&%s +intent(out)" % n]
        return ["void **%s +intent(%s)" % (n, self.form)]

    def cparams(self, n, lang):
        return ["void *&%s" % n] if self.form == "refout" else ["void **%s" % n]

    def body(self, n, lang):
        if self.form == "in":
            return ['vt_txt(" %s=");' % n, "vt_i(*(int *) *%s);" % n], []
        acc = n if self.form == "refout" else "*" + n
        return [], ["{ static int vt_cell_%s = 77; %s = &vt_cell_%s; }" % (n, acc, n)]

    def values(self):
        return [41, -7] if self.form == "in" else [None]

    def recv(self, n, v):
        return " %s=%d" % (n, v) if self.form == "in" else ""

    def observe(self, v):
        return [] if self.form == "in" else [rnd(NATIVE["int"], 77)]


class CdescIn(Atom):
    """T *a +intent(in)+rank(1)+cdesc: Fortran hands the C wrapper an array descriptor, the wrapper hands the library
    the base address; the library reads the first three elements"""

    py = False
    lua = False
    c_api = False

    def __init__(self, t):
        Atom.__init__(self, "cdesc_in_" + t.id)
        self.t = t

    def decl(self, n):
        return ["%s *%s +intent(in)+rank(1)+cdesc" % (self.t.cname, n)]

    def cparams(self, n, lang):
        return ["%s *%s" % (self.t.cname, n)]

    def body(self, n, lang):
        return ['vt_txt(" %s=");' % n, cfmt(self.t, "%s[0]" % n), 'vt_txt(",");', cfmt(self.t, "%s[1]" % n), 'vt_txt(",");', cfmt(self.t, "%s[2]" % n)], []

    def values(self):
        return [ARR_VALS[self.t.cname][-1], [1, 2, 3] if self.t.cls == "int" else [1.0, 2.0, 3.0]]

    def recv(self, n, v):
        return " %s=%s" % (n, ",".join(rnd(self.t, x) for x in v))


class CStrInImplied(Atom):
    """const char *s, int ns +implied(len_trim(s)) | +implied(len(s)): the library is told the trimmed / declared length
    of the caller's variable without the caller passing it"""

    py = False
    lua = False
    c_api = False

    def __init__(self, fn):
        Atom.__init__(self, "cstr_in_implied_" + fn)
        self.fn = fn  # 'len_trim' | 'len'

    def decl(self, n):
        return ["const char *%s" % n, "int n%s +implied(%s(%s))" % (n, self.fn, n)]

    def cparams(self, n, lang):
        return ["const char *%s" % n, "int n%s" % n]

    def body(self, n, lang):
        return ['vt_txt(" %s=");' % n, "vt_z(%s);" % n, 'vt_txt(" n%s=");' % n, "vt_i(n%s);" % n], []

    def values(self):
        return STR_VALS + ["   "]

    def recv(self, n, v):
        return " %s=%s n%s=%d" % (n, rs(v.rstrip(" ")), n, len(v.rstrip(" ")) if self.fn == "len_trim" else len(v))


def values_of(atom):
    return atom._vals if atom._vals is not None else atom.values()


# ---------------------------------------------------------------- results
class Res(object):
    kind = "res"
    langs = ("c", "cxx")
    py = True
    lua = False
    attrs = ""  # function attributes (+len(..), +dimension(..) ...)
    extra_params = []  # e.g. [('int','n')] for +dimension(n)

    def __init__(self, rid):
        self.id = rid

    def rtype(self, lang):
        raise NotImplementedError

    def yaml_rtype(self):
        return self.rtype("cxx")

    def ret(self, lang):
        """C/C++ statements ending in a return"""
        raise NotImplementedError

    def observe(self, extra=None):
        return []

    def needs(self):
        return set()

    def statics(self, lang):
        return []


class VoidRes(Res):
    lua = True

    def __init__(self):
        Res.__init__(self, "void")

    def rtype(self, lang):
        return "void"

    def ret(self, lang):
        return []


class NatRes(Res):
    def __init__(self, t):
        Res.__init__(self, "ret_" + t.id)
        self.t = t
        self.lua = True

    def rtype(self, lang):
        return self.t.cname

    def value(self):
        return self.t.vals[-1] if self.t.cls != "int" else self.t.vals[-2] if len(self.t.vals) > 3 else self.t.vals[-1]

    def ret(self, lang):
        return ["return %s;" % clit(self.t, self.value())]

    def observe(self, extra=None):
        return [rnd(self.t, self.value())]


class BoolRes(Res):
    lua = True

    def __init__(self, val=True):
        Res.__init__(self, "ret_bool_%d" % val)
        self.val = val

    def rtype(self, lang):
        return "bool"

    def ret(self, lang):
        return ["return %s;" % ("true" if self.val else "false")]

    def observe(self, extra=None):
        return ["1" if self.val else "0"]


class CharRes(Res):
    def __init__(self):
        Res.__init__(self, "ret_char")

    def rtype(self, lang):
        return "char"

    def ret(self, lang):
        return ["return 'Q';"]

    def observe(self, extra=None):
        return [str(ord("Q"))]


class CStrRes(Res):
    """const char * result: allocatable copy (default) or +len(N) fixed length"""

    lua = False

    def __init__(self, text, flen=None):
        # text None: the library returns NULL, which is a blank / zero-length value on the Fortran side
        self.null = text is None
        text = text or ""
        Res.__init__(self, "ret_cstr_%s%s" % ("null" if self.null else len(text), "_len%d" % flen if flen else ""))
        self.text = text
        self.flen = flen
        if flen:
            self.attrs = " +len(%d)" % flen

    def rtype(self, lang):
        return "const char *"

    def ret(self, lang):
        if self.null:
            return ["return NULL;"]
        return ['return "%s";' % self.text]

    def observe(self, extra=None):
        if self.flen:
            return [rs(self.text[: self.flen].ljust(self.flen))]
        return [rs(self.text)]


class StrRes(Res):
    """std::string by value / const std::string & / const std::string * +owner(...)"""

    langs = ("cxx",)
    lua = True

    def __init__(self, form, text, flen=None):
        Res.__init__(self, "ret_str_%s_%d%s" % (form, len(text), "_len%d" % flen if flen else ""))
        self.form = form
        self.text = text
        self.flen = flen  # +len(n): a fixed-length Fortran result, blank padded / truncated
        if flen:
            self.attrs = " +len(%d)" % flen
        elif form == "cptr_caller":
            self.attrs = " +owner(caller)"
        elif form == "cptr_library":
            self.attrs = " +owner(library)"
        self.lua = form in ("val", "cref")

    def rtype(self, lang):
        return {"val": "std::string", "cval": "const std::string", "cref": "const std::string &",
                "cptr_caller": "const std::string *", "cptr_library": "const std::string *"}[self.form]

    def statics(self, lang):
        if self.form in ("cref", "cptr_library"):
            return ['static const std::string vt_static_%s("%s");' % (self.id, self.text)]
        return []

    def ret(self, lang):
        if self.form in ("val", "cval"):
            return ['return std::string("%s");' % self.text]
        if self.form == "cref":
            return ["return vt_static_%s;" % self.id]
        if self.form == "cptr_library":
            return ["return &vt_static_%s;" % self.id]
        return ['return new std::string("%s");' % self.text]

    def observe(self, extra=None):
        if self.flen:
            return [rs(self.text[: self.flen].ljust(self.flen))]
        return [rs(self.text)]


class PtrRes(Res):
    """T * / T & result to a library-owned scalar -> Fortran pointer to scalar"""

    def __init__(self, t, ref=False, deref=None):
        Res.__init__(self, "ret_%s_%s%s" % ("ref" if ref else "ptr", t.id, "_" + deref if deref else ""))
        self.t = t
        self.ref = ref
        self.deref = deref  # None | 'raw' (Fortran: type(C_PTR)) | 'scalar' (the wrapper dereferences: a plain value in C and Fortran)
        if deref:
            self.attrs = " +deref(%s)" % deref
            self.py = False
        if ref:
            self.langs = ("cxx",)

    def rtype(self, lang):
        return "%s %s" % (self.t.cname, "&" if self.ref else "*")

    def statics(self, lang):
        return ["static %s vt_static_%s = %s;" % (self.t.cname, self.id, clit(self.t, outval(self.t, 1)))]

    def ret(self, lang):
        return ["return %svt_static_%s;" % ("" if self.ref else "&", self.id)]

    def observe(self, extra=None):
        return [rnd(self.t, outval(self.t, 1))]


class VoidPtrRes(Res):
    """void *f(): the address of a library-owned int"""

    py = False

    def __init__(self):
        Res.__init__(self, "ret_voidptr")

    def rtype(self, lang):
        return "void *"

    def statics(self, lang):
        return ["static int vt_static_%s = 91;" % self.id]

    def ret(self, lang):
        return ["return &vt_static_%s;" % self.id]

    def observe(self, extra=None):
        return [rnd(NATIVE["int"], 91)]


class ArrRes(Res):
    """T *f(int n) +dimension(n) [+deref(allocatable)] : library-owned array of n elements"""

    def __init__(self, t, deref=None):
        Res.__init__(self, "ret_arr_%s%s" % (t.id, "_" + deref if deref else ""))
        self.t = t
        self.deref = deref
        self.attrs = " +dimension(n)" + (" +deref(%s)" % deref if deref else "")
        self.extra_params = [("int", "n")]

    def rtype(self, lang):
        return "%s *" % self.t.cname

    def statics(self, lang):
        return ["static %s vt_static_%s[8];" % (self.t.cname, self.id)]

    def ret(self, lang):
        return ["{ int vt_k; for (vt_k = 0; vt_k < n && vt_k < 8; vt_k++) vt_static_%s[vt_k] = (%s)(10 + vt_k); }" % (self.id, self.t.cname),
                "return vt_static_%s;" % self.id]

    def extra_values(self):
        return [0, 1, 4]

    def observe(self, extra=None):
        n = extra
        return [ra(self.t, [(10 + k) if self.t.cls == "int" else float(10 + k) for k in range(n)])]


class ArrRes2(ArrRes):
    """T *f(int n) +dimension(n,2) [+deref(allocatable)] : library-owned rank-2 array, 2n elements in column-major order"""

    py = False
    lua = False

    def __init__(self, t, deref=None):
        ArrRes.__init__(self, t, deref)
        self.id = "ret_arr2_%s%s" % (t.id, "_" + deref if deref else "")
        self.attrs = " +dimension(n,2)" + (" +deref(%s)" % deref if deref else "")

    def statics(self, lang):
        return ["static %s vt_static_%s[16];" % (self.t.cname, self.id)]

    def ret(self, lang):
        return ["{ int vt_k; for (vt_k = 0; vt_k < 2 * n && vt_k < 16; vt_k++) vt_static_%s[vt_k] = (%s)(10 + vt_k); }" % (self.id, self.t.cname),
                "return vt_static_%s;" % self.id]

    def observe(self, extra=None):
        n = extra
        return [rnd(NATIVE["int"], n), rnd(NATIVE["int"], 2), ra(self.t, [(10 + k) if self.t.cls == "int" else float(10 + k) for k in range(2 * n)])]


class VecRes(Res):
    langs = ("cxx",)

    def __init__(self, t):
        Res.__init__(self, "ret_vec_" + t.id)
        self.t = t

    def rtype(self, lang):
        return "std::vector<%s>" % self.t.cname

    def ret(self, lang):
        return ["std::vector<%s> vt_rv;" % self.t.cname] + ["vt_rv.push_back((%s) %d);" % (self.t.cname, k) for k in (8, 9)] + ["return vt_rv;"]

    def observe(self, extra=None):
        return [ra(self.t, [8, 9] if self.t.cls == "int" else [8.0, 9.0])]


class EnumRes(Res):
    def __init__(self):
        Res.__init__(self, "ret_enum")

    def rtype(self, lang):
        return "%sColor" % ("enum " if lang == "c" else "")

    def yaml_rtype(self):
        return "Color"

    def ret(self, lang):
        return ["return GREEN;"]

    def observe(self, extra=None):
        return ["3"]

    def needs(self):
        return {"enum"}


class StructRes(Res):
    """Pt f() by value / Pt *f() pointer to a library-owned struct"""

    py = False
    lua = False

    def __init__(self, form):
        Res.__init__(self, "ret_struct_" + form)
        self.form = form

    def rtype(self, lang):
        return "Pt" if self.form == "val" else "Pt *"

    def statics(self, lang):
        return ["static Pt vt_pt_%s = { 77, 2.5 };" % self.form] if self.form == "ptr" else []

    def ret(self, lang):
        if self.form == "val":
            return ["{ Pt r; r.i = 77; r.d = 2.5; return r; }"]
        return ["return &vt_pt_ptr;"]

    def observe(self, extra=None):
        return [rnd(NATIVE["int"], 77), rnd(NATIVE["double"], 2.5)]

    def needs(self):
        return {"struct"}


# ---------------------------------------------------------------- functions and libraries
class Func(object):
    """One wrapped function: a result atom, argument atoms, optional trailing defaults."""

    def __init__(self, name, res, args, defaults=None, scope=None, tag=None, template=None, generic=None):
        self.name = name
        self.tag = tag or name  # what the subject logs; differs from name for overloads / template instantiations
        self.template = template  # C++ type text of the instantiation of 'template<typename T> R name(T x, ...)'
        self.generic = generic or []  # fortran_generic: native types the first argument is also offered as
        self.res = res
        self.args = args  # [(atom, argname)]
        self.defaults = defaults or {}  # argname -> (literal text, python value)   (Val atoms only)
        self.scope = scope  # None | "ns" | ("class", "static"|"const"|"method")

    def langs(self):
        ls = set(self.res.langs)
        for a, _ in self.args:
            ls &= set(a.langs)
        if self.defaults or self.scope or self.tag != self.name or self.template:
            ls &= {"cxx"}
        return ls

    def needs(self):
        s = set(self.res.needs())
        for a, _ in self.args:
            s |= a.needs()
        return s

    def decl(self):
        ps = []
        for a, n in self.args:
            for d in a.decl(n):
                ps.append(d)
        for pt, pn in self.res.extra_params:
            ps.append("%s %s" % (pt, pn))
        # defaults are attached to the named parameter
        out = []
        for p in ps:
            nm = p.split("+")[0].split()[-1].lstrip("*&")
            if nm in self.defaults:
                base, _, attrs = p.partition(" +")
                p = base + (" +" + attrs if attrs else "") + " = " + self.defaults[nm][0]
            out.append(p)
        rt = self.res.yaml_rtype()
        sep = "" if rt.endswith(("*", "&")) else " "
        return "%s%s%s(%s)%s" % (rt, sep, self.name, ", ".join(out) if out else "void" if "cxx" not in self.langs() else "", self.res.attrs)

    def cproto(self, lang, with_defaults=False):
        ps = []
        for a, n in self.args:
            for p in a.cparams(n, lang):
                if with_defaults and n in self.defaults and p.split()[-1].lstrip("*&") == n:
                    p += " = " + self.defaults[n][0]
                ps.append(p)
        for pt, pn in self.res.extra_params:
            ps.append("%s %s" % (pt, pn))
        rt = self.res.rtype(lang)
        sep = "" if rt.endswith(("*", "&")) else " "
        return "%s%s%s(%s)" % (rt, sep, self.name, ", ".join(ps) if ps else "void" if lang == "c" else "")

    def definition(self, lang):
        proto = self.cproto(lang)
        if self.template:
            proto = "template<> " + proto.replace(self.name + "(", "%s<%s>(" % (self.name, self.template), 1)
        lines = [proto, "{", '    vt_txt("RECV %s");' % self.tag]
        posts = []
        for a, n in self.args:
            log, post = a.body(n, lang)
            lines += ["    " + x for x in log]
            posts += post
        for pt, pn in self.res.extra_params:
            lines += ['    vt_txt(" %s=");' % pn, "    vt_i(%s);" % pn]
        lines.append('    vt_txt("\\n");')
        lines += ["    " + x for x in posts]
        lines += ["    " + x for x in self.res.ret(lang)]
        lines.append("}")
        return "\n".join(lines)


ENUM_DECL = "enum Color { RED, GREEN = 3, BLUE }"
STRUCT_DECL = "struct Pt { int i; double d; }"
CLASS_HPP = """
class Cls {
    int m_id;
public:
    Cls(int id) : m_id(id) {}
    int id() const { return m_id; }
};
"""
CLASS_YAML = {"decl": "class Cls", "declarations": [{"decl": "Cls(int id)"}, {"decl": "~Cls()"}, {"decl": "int id() const"}]}


class Library(object):
    """A set of functions wrapped together."""

    def __init__(self, name, funcs, lang):
        self.name = name  # library name, e.g. "Lone"
        self.funcs = [f for f in funcs if lang in f.langs()]
        self.lang = lang
        # Fortran name to call: a generic interface exists only when a template has two or more instantiations;
        # a single instantiation is reachable under <name>_<type> only
        ninst = {}
        for f in self.funcs:
            if f.template:
                ninst[f.name] = ninst.get(f.name, 0) + 1
        for f in self.funcs:
            f.fcall = f.name
            if f.template and ninst[f.name] == 1:
                f.fcall = "%s_%s" % (f.name, f.template.replace(" ", "_"))

    def needs(self):
        s = set()
        for f in self.funcs:
            s |= f.needs()
        return s

    def header_name(self):
        return "%s.%s" % (self.name.lower(), "h" if self.lang == "c" else "hpp")

    def yaml(self, options=None):
        decls = []
        if "enum" in self.needs():
            decls.append({"decl": ENUM_DECL})
        if "class" in self.needs():
            decls.append(dict(CLASS_YAML))
        if "struct" in self.needs():
            decls.append({"decl": STRUCT_DECL + ";"})
        templ = {}
        for f in self.funcs:
            if f.template:
                if f.name in templ:
                    templ[f.name]["cxx_template"].append({"instantiation": "<%s>" % f.template})
                    continue
                a0, n0 = f.args[0]
                d = f.decl().replace(a0.decl(n0)[0], "T %s" % n0, 1)
                e = {"decl": "template<typename T> " + d, "cxx_template": [{"instantiation": "<%s>" % f.template}]}
                templ[f.name] = e
                decls.append(e)
                continue
            e = {"decl": f.decl()}
            if f.generic:
                n0 = f.args[0][1]
                e["fortran_generic"] = [{"decl": "(%s %s)" % (t.cname, n0)} for t in f.generic]
            decls.append(e)
        d = {"library": self.name, "cxx_header": self.header_name(), "language": "c" if self.lang == "c" else "c++",
             "options": dict(options or {}), "declarations": decls}
        return d

    def header(self):
        lang = self.lang
        out = ["#ifndef VT_%s_H" % self.name.upper(), "#define VT_%s_H" % self.name.upper()]
        if lang == "c":
            out += ["#include <stdbool.h>", "#include <stddef.h>", "#include <stdint.h>"]
        else:
            out += ["#include <string>", "#include <vector>", "#include <cstddef>", "#include <cstdint>"]
        if "enum" in self.needs():
            out.append(ENUM_DECL + ";")
        if "class" in self.needs():
            out.append(CLASS_HPP)
        if "struct" in self.needs():
            out.append(STRUCT_DECL + ";")
            if lang == "c":
                out.append("typedef struct Pt Pt;")
        seen_t = set()
        for f in self.funcs:
            if f.template:
                if f.name not in seen_t:
                    seen_t.add(f.name)
                    a0, n0 = f.args[0]
                    out.append("template<typename T> " + f.cproto(lang).replace(a0.cparams(n0, lang)[0], "T %s" % n0, 1) + ";")
                out.append("template<> " + f.cproto(lang).replace(f.name + "(", "%s<%s>(" % (f.name, f.template), 1) + ";")
                continue
            out.append(f.cproto(lang, with_defaults=True) + ";")
        out.append("#endif")
        return "\n".join(out) + "\n"

    def source(self):
        lang = self.lang
        out = [SUBJECT_PRELUDE, '#include "%s"' % self.header_name()]
        seen = set()
        for f in self.funcs:
            for st in f.res.statics(lang):
                if st not in seen:
                    seen.add(st)
                    out.append(st)
        for f in self.funcs:
            out.append(f.definition(lang))
        return "\n".join(out) + "\n"


# ---------------------------------------------------------------- the table G (core rows)
def core_args(level=1):
    T = NATIVE
    A = []
    nat = ["int", "double", "uint64_t"] if level == 1 else ["int", "long", "short", "long long", "unsigned int", "size_t", "int32_t", "int64_t", "float", "double",
                                                            "uint64_t", "uint32_t", "int16_t", "uint16_t", "int8_t", "uint8_t", "unsigned long", "unsigned short", "unsigned long long"]
    for t in nat:
        A.append(Val(T[t]))
    A += [BoolVal(), CharVal()]
    for t in (["int", "double"] if level == 1 else ["int", "long", "float", "double"]):
        for intent in ("in", "out", "inout"):
            A.append(Ptr(T[t], intent))
            A.append(Ptr(T[t], intent, ref=True))
    A += [BoolPtr("inout"), BoolPtr("out")]
    for t in ("int", "double"):
        A += [Arr(T[t], "in"), Arr(T[t], "inout"), ArrOut(T[t])]
    A += [Arr(T["int"], "in", nt="long"), Arr(T["double"], "inout", nt="size_t")]
    A += [CStrIn(), CStrOut(), CStrInout(), CStrInoutLen()]
    A += [StrIn("cref"), StrIn("val"), StrIn("cptr"), StrOut("out"), StrOut("inout"), StrOut("inout", ptr=True)]
    for t in ("int", "double"):
        A += [Vec(T[t], "in"), Vec(T[t], "out"), Vec(T[t], "inout"), Vec(T[t], "alloc")]
    # non-const pointers and references with no intent written (input.rst: the default is inout)
    A += [Ptr(T["int"], "inout", bare=True), Ptr(T["double"], "inout", ref=True, bare=True), StrOut("inout", bare=True), StrOut("inout", ptr=True, bare=True),
          Vec(T["int"], "inout", bare=True)]
    A += [EnumVal(), ClsArg("ptr"), ClsArg("cref")]
    A += [StructArg(f) for f in ("val", "cptr", "ptr_inout", "ptr_out", "ref_inout", "cref")]
    A += [PtrPtrOut(T["int"], "fixed"), PtrPtrOut(T["int"], "dyn"), PtrPtrOut(T["double"], "dyn"), VoidPtr(), StrArrIn(), PtrPtrIn(T["int"]), PtrPtrIn(T["double"])]
    # rows found missing by the statement-table coverage report (vt.stmtcov): generated and compiled, but never executed
    A += [StrOut("out", ptr=True), PtrRefOut(T["int"], "fixed"), PtrRefOut(T["double"], "dyn"), PtrPtrConstOut(T["double"]), PtrPtrRaw(T["int"]),
          ArrOutAlloc(T["int"]), ArrOutAlloc(T["double"]), VecInoutAlloc(T["int"]), VoidPP("in"), VoidPP("out"), VoidPP("refout"), CdescIn(T["int"]), CdescIn(T["double"]),
          CStrInImplied("len_trim"), CStrInImplied("len")]
    return A


def core_results(level=1):
    T = NATIVE
    R = [VoidRes()]
    nat = ["int", "double", "uint64_t"] if level == 1 else ["int", "long", "short", "long long", "unsigned int", "size_t", "float", "double",
                                                            "uint64_t", "uint32_t", "int16_t", "uint16_t", "int8_t", "uint8_t", "unsigned long", "unsigned short", "unsigned long long"]
    for t in nat:
        R.append(NatRes(T[t]))
    R += [BoolRes(True), BoolRes(False), CharRes()]
    R += [CStrRes("hey you"), CStrRes(""), CStrRes("hey you", 10), CStrRes("hey you", 3)]
    R += [StrRes("val", "result"), StrRes("val", ""), StrRes("cref", "refres"), StrRes("cptr_caller", "owned"), StrRes("cptr_library", "lib")]
    for t in ("int", "double"):
        R += [PtrRes(T[t]), PtrRes(T[t], ref=True), ArrRes(T[t]), ArrRes(T[t], "allocatable"), VecRes(T[t]), ArrRes2(T[t]), ArrRes2(T[t], "allocatable")]
    R += [EnumRes(), StructRes("val"), StructRes("ptr")]
    R += [PtrRes(T["int"], deref="raw"), PtrRes(T["int"], deref="scalar"), PtrRes(T["double"], deref="scalar"), VoidPtrRes()]
    return R
