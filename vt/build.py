"""Compile / link / run helpers for generated wrappers, subject libraries and drivers."""
from __future__ import annotations

import os
import re
import subprocess

CFLAGS = ["-g", "-O0", "-w"]


def sh(cmd, cwd, env=None, timeout=1800):  # compilers on a loaded machine: a slow compile is not a verdict
    try:
        p = subprocess.run(cmd, cwd=cwd, capture_output=True, text=True, errors="replace", env=env, timeout=timeout)
    except subprocess.TimeoutExpired:
        return 124, "", "timeout: %s" % " ".join(cmd)
    return p.returncode, p.stdout, p.stderr


def fortran_order(files, cwd):
    """Order Fortran sources so that a module is compiled before its users."""
    info = {}
    for f in files:
        text = open(os.path.join(cwd, f)).read()
        mods = set(m.lower() for m in re.findall(r"^\s*module\s+(\w+)\s*$", text, re.M | re.I))
        uses = set(m.lower() for m in re.findall(r"^\s*use\s+(\w+)", text, re.M | re.I))
        info[f] = (mods, uses - mods)
    done, order = set(), []
    pending = list(files)
    while pending:
        progressed = False
        for f in list(pending):
            mods, uses = info[f]
            provided_elsewhere = set()
            for g in pending:
                if g != f:
                    provided_elsewhere |= info[g][0]
            if not (uses & provided_elsewhere):
                order.append(f)
                pending.remove(f)
                progressed = True
        if not progressed:
            order += pending
            break
    return order


class BuildError(Exception):
    def __init__(self, stage, msg):
        Exception.__init__(self, "%s: %s" % (stage, msg))
        self.stage = stage
        self.msg = msg


def compile_c_family(cwd, sources, lang, incs=(), extra=(), san=False):
    """Compile .c/.cpp sources to objects; returns object names. Raises BuildError."""
    objs = []
    for s in sources:
        cxx = s.endswith((".cpp", ".cxx", ".cc")) or (lang != "c" and not s.endswith(".c"))
        cc = ["g++", "-std=c++11"] if cxx else ["gcc", "-std=c99"]
        o = os.path.splitext(os.path.basename(s))[0] + ".o"
        flags = CFLAGS + (["-fsanitize=address", "-fno-omit-frame-pointer"] if san else [])
        rc, so, se = sh(cc + flags + list(extra) + ["-I."] + ["-I" + i for i in incs] + ["-c", s, "-o", o], cwd)
        if rc != 0:
            raise BuildError("compile %s" % s, se[:1500])
        objs.append(o)
    return objs


def compile_fortran(cwd, sources, san=False, extra=()):
    objs = []
    for s in fortran_order(sources, cwd):
        o = os.path.splitext(os.path.basename(s))[0] + ".o"
        flags = ["-g", "-O0", "-cpp", "-ffree-form", "-ffree-line-length-none", "-w"] + (["-fsanitize=address"] if san else [])
        if s.endswith(".f"):
            flags.remove("-ffree-line-length-none")  # generated files must respect the 132 column limit themselves
        rc, so, se = sh(["gfortran"] + flags + list(extra) + ["-c", s, "-o", o], cwd)
        if rc != 0:
            raise BuildError("compile %s" % s, se[:1500])
        objs.append(o)
    return objs


def link(cwd, objs, exe, fortran=True, cxx=True, san=False, extra=()):
    cc = ["gfortran"] if fortran else (["g++"] if cxx else ["gcc"])
    libs = ["-lstdc++"] if (fortran and cxx) else []
    flags = ["-fsanitize=address"] if san else []
    rc, so, se = sh(cc + flags + ["-o", exe] + list(objs) + libs + list(extra), cwd)
    if rc != 0:
        raise BuildError("link", se[:1500])
    return exe


def run_exe(cwd, exe, trace="trace.txt", env_extra=None, timeout=120):
    env = dict(os.environ)
    env["VT_TRACE"] = os.path.join(cwd, trace)
    env.setdefault("ASAN_OPTIONS", "detect_leaks=0")
    if env_extra:
        env.update(env_extra)
    tp = os.path.join(cwd, trace)
    if os.path.exists(tp):
        os.unlink(tp)
    rc, so, se = sh([os.path.join(cwd, exe)], cwd, env=env, timeout=timeout)
    tr = open(tp, errors="replace").read() if os.path.exists(tp) else ""
    return rc, so, se, tr
