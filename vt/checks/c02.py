"""C02 - the generated C API of a C++ library is call-equivalent to the C++ API.

(1) every C++ library assembled from the atom table (L1, L2) is wrapped by the real shroud and
driven by a generated C program that includes only the generated headers, calling every
function over the product of the atoms' value alphabets; (2) a class / namespace / overload /
default / template scenario; both under the default and a customised C_prefix and
C_name_template (the model predicts every C name from the documented template).
Oracle: RECV trace and observations equal the reference model line by line.
"""
from __future__ import annotations

import json
import re
import os
import shutil

from .. import atoms as A
from .. import build, drv_c, drv_f, gen, isolate
from . import c01
from .c08 import un_camel

NAMING = {
    "default": (None, None, "{p}{scope}{name}{suffix}"),
    "custom": ("ZZ_", "{C_prefix}x_{C_name_scope}{underscore_name}{function_suffix}{template_suffix}", "{p}x_{scope}{name}{suffix}"),
}
# scenario only (the atom libraries have no scopes): option C_API_case "controls the case of C_name_scope"
SCOPE_CASES = {"upper": str.upper, "lower": str.lower}


def namer_for(libname, naming, scope=""):
    pfx, tmpl, pat = NAMING[naming]
    p = pfx or (libname[:3].upper() + "_")

    def namer(name, suffix, scope=scope):
        return pat.format(p=p, scope=scope, name=un_camel(name), suffix=suffix)

    return p, namer


def atom_case(args):
    workdir, libname, funcs, naming, cap, san = args
    funcs = [f for f in funcs if "cxx" in f.langs() and drv_c.supported(f)]
    lib = A.Library(libname, funcs, "cxx")
    res = {"calls": 0, "errs": [], "nfuncs": len(lib.funcs)}
    if not lib.funcs:
        return res
    pfx, tmpl, _ = NAMING[naming]
    opts = {"wrap_fortran": False, "wrap_c": True}
    if tmpl:
        opts["C_name_template"] = tmpl
    y = lib.yaml(opts)
    if pfx:
        y["format"] = {"C_prefix": pfx}
    os.makedirs(workdir)
    r, tree = gen.gen_tree(workdir, y, keep=True)
    if r.status != "ok":
        res["errs"].append(("generate", None, "%s %s: %s" % (r.status, r.exc, (r.msg or "")[:300])))
        res["retry"] = True
        shutil.rmtree(workdir, ignore_errors=True)
        return res
    out = os.path.join(workdir, "out")
    with open(os.path.join(out, lib.header_name()), "w") as fp:
        fp.write(lib.header())
    with open(os.path.join(out, "subject.cpp"), "w") as fp:
        fp.write(lib.source())
    prefix, namer = namer_for(libname, naming)
    plans = {f.name: drv_f.call_plans(f, cap) for f in lib.funcs}
    headers = sorted(f for f in os.listdir(out) if f.startswith("wrap") and f.endswith(".h"))
    src, exp_recv, exp_obs = drv_c.driver(lib, plans, headers, prefix, namer)
    with open(os.path.join(out, "driver.c"), "w") as fp:
        fp.write(src)
    try:
        csrc = sorted(f for f in os.listdir(out) if f.endswith((".c", ".cpp")))
        objs = build.compile_c_family(out, csrc, "cxx", san=san)
        build.link(out, objs, "drv", fortran=False, cxx=True, san=san)
    except build.BuildError as e:
        res["errs"].append(("build", None, str(e)[:900]))
        res["retry"] = True
        shutil.rmtree(workdir, ignore_errors=True)
        return res
    rc, so, se, tr = build.run_exe(out, "drv")
    got_obs = [l for l in so.split("\n") if l.startswith("OBS ")]
    got_recv = [l for l in tr.split("\n") if l.startswith("RECV ")]
    res["calls"] = len(exp_obs)
    if rc != 0:
        res["errs"].append(("run", None, "driver exit %d: %s" % (rc, (se or so)[-500:])))
    bad = {}
    for kind, got, exp in (("received", got_recv, exp_recv), ("observed", got_obs, exp_obs)):
        for i, e in enumerate(exp):
            g = got[i] if i < len(got) else "(missing)"
            if g != e:
                fname = e.split()[1]
                bad.setdefault(fname, "%s: %s\n      got      %s\n      expected %s" % (fname, kind, g, e))
                if len(got) != len(exp):
                    break
    fmap = {f.name: f for f in lib.funcs}
    for fname, msg in bad.items():
        f = fmap.get(fname)
        res["errs"].append(("mismatch", f.decl() if f else fname, "[naming %s] %s   (decl: %s)" % (naming, msg, f.decl() if f else "?")))
    shutil.rmtree(workdir, ignore_errors=True)
    return res


# ---------------------------------------------------------------- class / namespace / overload scenario
SCEN_YAML = """\
library: Cee
cxx_header: cee.hpp
options:
  wrap_fortran: false
declarations:
- decl: enum Color { RED, GREEN = 3, BLUE }
- decl: enum Level { HIGH = 10, NONE = 0, LOW }
- decl: class Cls
  declarations:
  - decl: Cls(int id)
  - decl: ~Cls()
  - decl: int id() const
  - decl: int add(int x)
  - decl: const int *slot()
  - decl: static int twice(int x)
  - decl: void rename(const std::string &name)
  - decl: const std::string &name() const
  - decl: int which() const
    format:
      function_suffix: _const
  - decl: int which()
    format:
      function_suffix: _mutable
- decl: void takes(Cls *c, const Cls &d)
- decl: int byVal(Cls c, int extra)
# overloads that differ only in the constness of a class argument: each C name reaches the overload it was made for
- decl: int peek(Cls &c)
  format:
    function_suffix: _mut
  options:
    wrap_fortran: false
    wrap_python: false
    wrap_lua: false
- decl: int peek(const Cls &c)
  format:
    function_suffix: _const
  options:
    wrap_fortran: false
    wrap_python: false
    wrap_lua: false
- decl: int peekp(Cls *c)
  format:
    function_suffix: _mut
  options:
    wrap_fortran: false
    wrap_python: false
    wrap_lua: false
- decl: int peekp(const Cls *c)
  format:
    function_suffix: _const
  options:
    wrap_fortran: false
    wrap_python: false
    wrap_lua: false
# a second class, declared after the first and sorting before it: each object is released by its own class's destructor
- decl: class Abc
  declarations:
  - decl: Abc(int id)
  - decl: ~Abc()
  - decl: int id() const
- decl: Abc *newAbc(int id) +owner(caller)
- decl: Cls *findCls(int id)
# result attributes under fattrs next to argument attributes under attrs (input.rst, Attributes)
- decl: Cls *newCls(int id)
  attrs:
    id:
      value: true
  fattrs:
    owner: caller
- decl: Cls &refCls(int id)
- decl: const Cls &crefCls(int id)
- decl: Cls valCls(int id)
- decl: Color nextColor(Color c)
- decl: int levelValue(Level lv)
- decl: void over(int a)
- decl: void over(double a)
- decl: void pick(int a, double b = 0.5)
  default_arg_suffix:
  -
  - _both
- decl: int dflt(int a, int b = 2)
- decl: int zdflt(int a, int by = 0, double w = 0.0)
- decl: enum Grade { G_LOW = 1, G_MID = G_LOW + 4, G_HIGH, G_TOP = 100, G_PEAK }
- decl: int gradeValue(Grade g)
- decl: int sumRank(const int *values +dimension(..), int nvalues)
  options:
    F_assumed_rank_max: 2
- decl: |
    template<typename T> T tmpl(T a)
  cxx_template:
  - instantiation: <int>
  - instantiation: <double>
- decl: |
    template<typename T, typename U> double weigh(T count, U scale)
  cxx_template:
  - instantiation: <int, double>
  - instantiation: <long, float>
# overloaded function templates: the explicit function_suffix and the template_suffix of each instantiation both appear, in the documented order
- decl: |
    template<typename T> int put(T v)
  format:
    function_suffix: _one
  cxx_template:
  - instantiation: <int>
  - instantiation: <double>
- decl: |
    template<typename T> int put(T v, T w)
  format:
    function_suffix: _two
  cxx_template:
  - instantiation: <int>
  - instantiation: <double>
- decl: void order(int a, double b, const std::string &c, bool d)
- decl: void halo(int n, int m, int *cells +intent(out)+dimension(n+2,m))
- decl: int *nodes(int n, int m) +dimension(n+1,m+1)
- decl: int total(const int *v +rank(1), int n +implied(size(v)))
- decl: double total(const double *v +rank(1), int n +implied(size(v)))
- decl: int scale(int n, int *sum +intent(out), int factor = 3)
- decl: int scale(const std::string &name, int a, int b, int c)
- decl: int tally(const int *v +rank(1), int n +implied(size(v)), int bias = 100)
- decl: int tally(int a, int b, int c, int d)
- decl: void fillText(char *text +intent(out)+charlen(20), int cap +implied(len(text)))
- decl: int nextValue()
- decl: int bump(int by)
- decl: namespace ns
  declarations:
  - decl: int nsf(int a)
  - decl: namespace inner
    declarations:
    - decl: int innerf(int a)
    # a class result by value from a function two namespaces below the class: released by the class's destructor like any other
    - decl: Cls innerVal(int id)
      options:
        wrap_fortran: false
        wrap_python: false
        wrap_lua: false
    - decl: Cls *innerNew(int id) +owner(caller)
      options:
        wrap_fortran: false
        wrap_python: false
        wrap_lua: false
"""
SCEN_HPP = r"""
#ifndef CEE_HPP
#define CEE_HPP
#include <string>
enum Color { RED, GREEN = 3, BLUE };
enum Level { HIGH = 10, NONE = 0, LOW };
class Cls {
    int m_id; std::string m_name;
public:
    Cls() : m_id(0), m_name("n") {}   // by-value results need a default constructible class (the wrapper does new Cls; *p = f();)
    Cls(int id);
    Cls(const Cls &o);
    ~Cls();
    int id() const;
    int add(int x);
    const int *slot();
    static int twice(int x);
    void rename(const std::string &name);
    const std::string &name() const;
    int which() const;
    int which();
};
void takes(Cls *c, const Cls &d);
int byVal(Cls c, int extra);
int peek(Cls &c); int peek(const Cls &c); int peekp(Cls *c); int peekp(const Cls *c);
class Abc { int m_id; public: Abc(int id); ~Abc(); int id() const; };
Abc *newAbc(int id);
template<typename T> int put(T v);
template<typename T> int put(T v, T w);
Cls *findCls(int id);
Cls *newCls(int id);
Cls &refCls(int id);
const Cls &crefCls(int id);
Cls valCls(int id);
Color nextColor(Color c);
int levelValue(Level lv);
void pick(int a, double b = 0.5);
void over(int a);
void over(double a);
int dflt(int a, int b = 2);
int zdflt(int a, int by = 0, double w = 0.0);
enum Grade { G_LOW = 1, G_MID = G_LOW + 4, G_HIGH, G_TOP = 100, G_PEAK };
int gradeValue(Grade g);
int sumRank(const int *values, int nvalues);
template<typename T> T tmpl(T a);
template<typename T, typename U> double weigh(T count, U scale);
void order(int a, double b, const std::string &c, bool d);
void halo(int n, int m, int *cells);
int *nodes(int n, int m);
int total(const int *v, int n);
double total(const double *v, int n);
int scale(int n, int *sum, int factor = 3);
int scale(const std::string &name, int a, int b, int c);
int tally(const int *v, int n, int bias = 100);
int tally(int a, int b, int c, int d);
void fillText(char *text, int cap);
int nextValue();
int bump(int by);
namespace ns { int nsf(int a); namespace inner { int innerf(int a); Cls innerVal(int id); Cls *innerNew(int id); } }
#endif
"""
SCEN_CPP = A.SUBJECT_PRELUDE + r"""
#include "cee.hpp"
Cls::Cls(int id) : m_id(id), m_name("n") { vt_txt("RECV Cls::Cls id="); vt_i(id); vt_txt("\n"); }
Cls::Cls(const Cls &o) : m_id(o.m_id), m_name(o.m_name) { vt_txt("RECV Cls::copy id="); vt_i(m_id); vt_txt("\n"); }
Cls::~Cls() { vt_txt("RECV Cls::~Cls this="); vt_i(m_id); vt_txt("\n"); }
int Cls::id() const { return m_id; }
int Cls::add(int x) { vt_txt("RECV Cls::add this="); vt_i(m_id); vt_txt(" x="); vt_i(x); vt_txt("\n"); return m_id + x; }
const int *Cls::slot() { return &m_id; }
int Cls::twice(int x) { vt_txt("RECV Cls::twice x="); vt_i(x); vt_txt("\n"); return 2 * x; }
void Cls::rename(const std::string &name) { vt_txt("RECV Cls::rename this="); vt_i(m_id); vt_txt(" name="); vt_s(name.data(), (long) name.size()); vt_txt("\n"); m_name = name; }
const std::string &Cls::name() const { return m_name; }
int Cls::which() const { vt_txt("RECV Cls::which-const this="); vt_i(m_id); vt_txt("\n"); return 1; }
int Cls::which() { vt_txt("RECV Cls::which-mutable this="); vt_i(m_id); vt_txt("\n"); return 2; }
void takes(Cls *c, const Cls &d) { vt_txt("RECV takes c="); vt_i(c->id()); vt_txt(" d="); vt_i(d.id()); vt_txt("\n"); }
int byVal(Cls c, int extra) { vt_txt("RECV byVal c="); vt_i(c.id()); vt_txt(" extra="); vt_i(extra); vt_txt("\n"); return c.id() + extra; }
Abc::Abc(int id) : m_id(id) { vt_txt("RECV Abc::Abc id="); vt_i(id); vt_txt("\n"); }
Abc::~Abc() { vt_txt("RECV Abc::~Abc this="); vt_i(m_id); vt_txt("\n"); }
int Abc::id() const { return m_id; }
Abc *newAbc(int id) { vt_txt("RECV newAbc id="); vt_i(id); vt_txt("\n"); return new Abc(id); }
template<> int put<int>(int v) { vt_txt("RECV put<int>(1) v="); vt_i(v); vt_txt("\n"); return 11; }
template<> int put<double>(double v) { vt_txt("RECV put<double>(1) v="); vt_d(v); vt_txt("\n"); return 12; }
template<> int put<int>(int v, int w) { vt_txt("RECV put<int>(2) v="); vt_i(v); vt_txt(" w="); vt_i(w); vt_txt("\n"); return 21; }
template<> int put<double>(double v, double w) { vt_txt("RECV put<double>(2) v="); vt_d(v); vt_txt(" w="); vt_d(w); vt_txt("\n"); return 22; }
static Cls *lib_objs[2];
Cls *findCls(int id) { if (!lib_objs[0]) { lib_objs[0] = new Cls(100); lib_objs[1] = new Cls(101); } vt_txt("RECV findCls id="); vt_i(id); vt_txt("\n"); return lib_objs[id % 2]; }
Cls &refCls(int id) { vt_txt("RECV refCls id="); vt_i(id); vt_txt("\n"); return *lib_objs[id % 2]; }
const Cls &crefCls(int id) { vt_txt("RECV crefCls id="); vt_i(id); vt_txt("\n"); return *lib_objs[id % 2]; }
Cls *newCls(int id) { vt_txt("RECV newCls id="); vt_i(id); vt_txt("\n"); return new Cls(id); }
Cls valCls(int id) { vt_txt("RECV valCls id="); vt_i(id); vt_txt("\n"); return Cls(id); }
int levelValue(Level lv) { vt_txt("RECV levelValue lv="); vt_i((int) lv); vt_txt("\n"); return 100 + (int) lv; }
Color nextColor(Color c) { vt_txt("RECV nextColor c="); vt_i((int) c); vt_txt("\n"); return c == RED ? GREEN : c == GREEN ? BLUE : RED; }
void pick(int a, double b) { vt_txt("RECV pick a="); vt_i(a); vt_txt(" b="); vt_d(b); vt_txt("\n"); }
void over(int a) { vt_txt("RECV over(int) a="); vt_i(a); vt_txt("\n"); }
void over(double a) { vt_txt("RECV over(double) a="); vt_d(a); vt_txt("\n"); }
int zdflt(int a, int by, double w) { vt_txt("RECV zdflt a="); vt_i(a); vt_txt(" by="); vt_i(by); vt_txt(" w="); vt_d(w); vt_txt("\n"); return a * 10 + by; }
int gradeValue(Grade g) { vt_txt("RECV gradeValue g="); vt_i((int) g); vt_txt("\n"); return 1000 + (int) g; }
int sumRank(const int *values, int nvalues) { int t = 0; vt_txt("RECV sumRank n="); vt_i(nvalues); vt_txt("\n"); for (int i = 0; i < nvalues; i++) t += values[i]; return t; }
int dflt(int a, int b) { vt_txt("RECV dflt a="); vt_i(a); vt_txt(" b="); vt_i(b); vt_txt("\n"); return a * 10 + b; }
template<> int tmpl<int>(int a) { vt_txt("RECV tmpl<int> a="); vt_i(a); vt_txt("\n"); return a + 1; }
template<> double tmpl<double>(double a) { vt_txt("RECV tmpl<double> a="); vt_d(a); vt_txt("\n"); return a * 2; }
template<> double weigh<int, double>(int count, double scale) { vt_txt("RECV weigh<int,double> count="); vt_i(count); vt_txt(" scale="); vt_d(scale); vt_txt("\n"); return count * scale; }
template<> double weigh<long, float>(long count, float scale) { vt_txt("RECV weigh<long,float> count="); vt_i(count); vt_txt(" scale="); vt_f(scale); vt_txt("\n"); return count * (double) scale; }
void order(int a, double b, const std::string &c, bool d) { vt_txt("RECV order a="); vt_i(a); vt_txt(" b="); vt_d(b); vt_txt(" c="); vt_s(c.data(), (long) c.size()); vt_txt(" d="); vt_i(d ? 1 : 0); vt_txt("\n"); }
void halo(int n, int m, int *cells) { vt_txt("RECV halo n="); vt_i(n); vt_txt(" m="); vt_i(m); vt_txt("\n"); for (int i = 0; i < (n + 2) * m; i++) cells[i] = 100 + i; }
int *nodes(int n, int m) { static int store[64]; vt_txt("RECV nodes n="); vt_i(n); vt_txt(" m="); vt_i(m); vt_txt("\n"); for (int i = 0; i < (n + 1) * (m + 1) && i < 64; i++) store[i] = 200 + i; return store; }
int total(const int *v, int n) { int s = 0; vt_txt("RECV total(int) n="); vt_i(n); vt_txt("\n"); for (int i = 0; i < n; i++) s += v[i]; return s; }
int scale(int n, int *sum, int factor) { vt_txt("RECV scale(int) n="); vt_i(n); vt_txt(" factor="); vt_i(factor); vt_txt("\n"); *sum = n + factor; return n * factor; }
int scale(const std::string &name, int a, int b, int c) { vt_txt("RECV scale(str) name="); vt_s(name.data(), (long) name.size()); vt_txt(" a="); vt_i(a); vt_txt("\n"); return a + b + c; }
int tally(const int *v, int n, int bias) { int s = bias; vt_txt("RECV tally(arr) n="); vt_i(n); vt_txt(" bias="); vt_i(bias); vt_txt("\n"); for (int i = 0; i < n; i++) s += v[i]; return s; }
int tally(int a, int b, int c, int d) { vt_txt("RECV tally(4) a="); vt_i(a); vt_txt("\n"); return a + b + c + d; }
void fillText(char *text, int cap) { vt_txt("RECV fillText cap="); vt_i(cap); vt_txt("\n"); if (cap >= 7) { text[0] = 'c'; text[1] = 'a'; text[2] = 'p'; text[3] = '='; text[4] = (char)('0' + cap / 10); text[5] = (char)('0' + cap % 10); text[6] = 0; } else if (cap > 0) text[0] = 0; }
static int vt_counter = 0;
int nextValue() { vt_counter += 1; vt_txt("RECV nextValue n="); vt_i(vt_counter); vt_txt("\n"); return vt_counter; }
int bump(int by) { vt_counter += by; vt_txt("RECV bump n="); vt_i(vt_counter); vt_txt("\n"); return vt_counter; }
double total(const double *v, int n) { double s = 0; vt_txt("RECV total(double) n="); vt_i(n); vt_txt("\n"); for (int i = 0; i < n; i++) s += v[i]; return s; }
namespace ns { int nsf(int a) { vt_txt("RECV ns::nsf a="); vt_i(a); vt_txt("\n"); return a + 1; }
namespace inner { int innerf(int a) { vt_txt("RECV ns::inner::innerf a="); vt_i(a); vt_txt("\n"); return a + 2; }
Cls innerVal(int id) { vt_txt("RECV ns::inner::innerVal id="); vt_i(id); vt_txt("\n"); return Cls(id); }
Cls *innerNew(int id) { vt_txt("RECV ns::inner::innerNew id="); vt_i(id); vt_txt("\n"); return new Cls(id); } } }
int peek(Cls &c) { vt_txt("RECV peek(mut) c="); vt_i(c.id()); vt_txt("\n"); return c.add(0) + 2000; }
int peek(const Cls &c) { vt_txt("RECV peek(const) c="); vt_i(c.id()); vt_txt("\n"); return c.id() + 1000; }
int peekp(Cls *c) { vt_txt("RECV peekp(mut) c="); vt_i(c->id()); vt_txt("\n"); return c->id() + 4000; }
int peekp(const Cls *c) { vt_txt("RECV peekp(const) c="); vt_i(c->id()); vt_txt("\n"); return c->id() + 3000; }
"""


def scenario_case(args):
    workdir, naming = args
    import yaml

    y = yaml.safe_load(SCEN_YAML)
    case = SCOPE_CASES.get(naming)
    if case:
        y["options"]["C_API_case"] = naming
        naming = "default"
    pfx, tmpl, _ = NAMING[naming]
    if tmpl:
        y["options"]["C_name_template"] = tmpl
    if pfx:
        y["format"] = {"C_prefix": pfx}
    os.makedirs(workdir)
    r, tree = gen.gen_tree(workdir, y, keep=True)
    if r.status != "ok":
        shutil.rmtree(workdir, ignore_errors=True)
        return [("generate", "scenario", "%s %s: %s" % (r.status, r.exc, (r.msg or "")[:300]))], 0
    out = os.path.join(workdir, "out")
    open(os.path.join(out, "cee.hpp"), "w").write(SCEN_HPP)
    open(os.path.join(out, "subject.cpp"), "w").write(SCEN_CPP)
    P, N = namer_for("Cee", naming)
    cs = case or (lambda x: x)
    _, NC = namer_for("Cee", naming, cs("Cls_"))
    _, NA = namer_for("Cee", naming, cs("Abc_"))
    _, NN = namer_for("Cee", naming, cs("ns_"))
    _, NI = namer_for("Cee", naming, cs("ns_inner_"))
    T = P + cs("Cls")
    if case:
        naming = args[1]
    d = {"T": T, "P": P, "ctor": NC("ctor", ""), "dtor": NC("dtor", ""), "id": NC("id", ""), "add": NC("add", ""), "slot": NC("slot", ""), "twice": NC("twice", ""),
         "rename": NC("rename", ""), "name": NC("name", ""), "whichc": NC("which", "_const"), "whichm": NC("which", "_mutable"), "takes": N("takes", ""), "byval": N("byVal", ""), "peekm": N("peek", "_mut"), "peekc": N("peek", "_const"), "peekpm": N("peekp", "_mut"), "peekpc": N("peekp", "_const"), "innerval": NI("innerVal", ""), "innernew": NI("innerNew", ""), "TA": P + cs("Abc"), "newabc": N("newAbc", ""), "abcid": NA("id", ""), "abcctor": NA("ctor", ""),
         "p1i": N("put", "_one_int"), "p1d": N("put", "_one_double"), "p2i": N("put", "_two_int"), "p2d": N("put", "_two_double"), "find": N("findCls", ""), "new": N("newCls", ""), "ref": N("refCls", ""), "cref": N("crefCls", ""),
         "val": N("valCls", ""), "next": N("nextColor", ""), "level": N("levelValue", ""), "over0": N("over", "_0"), "over1": N("over", "_1"), "pick0": N("pick", ""), "pick1": N("pick", "_both"), "dflt0": N("dflt", "_0"),
         "dflt1": N("dflt", "_1"), "z0": N("zdflt", "_0"), "z1": N("zdflt", "_1"), "z2": N("zdflt", "_2"), "grade": N("gradeValue", ""), "sumrank": N("sumRank", ""), "tint": N("tmpl", "_int"), "tdbl": N("tmpl", "_double"), "w0": N("weigh", "_0"), "w1": N("weigh", "_1"), "order": N("order", ""), "nsf": NN("nsf", ""),
         "innerf": NI("innerf", "")}
    drv = drv_c.C_PRELUDE + "\n".join('#include "%s"' % h for h in sorted(os.listdir(out)) if h.startswith("wrap") and h.endswith(".h")) + r"""
int main(void) {
  %(T)s a, b, r;
  %(TA)s x, y;
  %(ctor)s(5, &a); %(ctor)s(9, &b);
  printf("OBS ids"); obs_i(%(id)s(&a)); obs_i(%(id)s(&b)); printf("\n");
  printf("OBS add"); obs_i(%(add)s(&a, 3)); obs_i(%(add)s(&b, 4)); obs_i(%(add)s(&a, -1)); printf("\n");
  printf("OBS twice"); obs_i(%(twice)s(21)); printf("\n");
  printf("OBS slot"); obs_i(*%(slot)s(&a)); obs_i(*%(slot)s(&b)); printf("\n");
  %(rename)s(&b, "bee"); %(rename)s(&a, "");
  printf("OBS names"); obs_z(%(name)s(&a)); obs_z(%(name)s(&b)); printf("\n");
  printf("OBS which"); obs_i(%(whichc)s(&a)); obs_i(%(whichm)s(&b)); obs_i(%(whichc)s(&b)); printf("\n");
  %(takes)s(&a, &b); %(takes)s(&b, &a);
  printf("OBS byval"); obs_i(%(byval)s(a, 2)); obs_i(%(byval)s(b, -9)); printf("\n");
  %(find)s(0, &r); printf("OBS find"); obs_i(%(id)s(&r)); %(find)s(3, &r); obs_i(%(id)s(&r)); printf("\n");
  /* a class returned by reference is the library's own object: what is done through the handle is seen by the library */
  %(ref)s(0, &r); %(rename)s(&r, "zed"); %(find)s(0, &r); printf("OBS ref"); obs_z(%(name)s(&r)); %(cref)s(2, &r); obs_z(%(name)s(&r)); obs_i(%(id)s(&r)); printf("\n");
  %(new)s(7, &r); printf("OBS new"); obs_i(%(id)s(&r)); obs_i(%(add)s(&r, 1)); printf("\n"); %(dtor)s(&r);
  %(val)s(8, &r); printf("OBS val"); obs_i(%(id)s(&r)); printf("\n"); %(dtor)s(&r);
  /* objects of two classes released through the library's memory destructor: each by the destructor of its own class */
  %(newabc)s(3, &x); %(abcctor)s(4, &y); %(new)s(6, &r);
  printf("OBS abc"); obs_i(%(abcid)s(&x)); obs_i(%(abcid)s(&y)); printf("\n");
  %(P)sSHROUD_memory_destructor((%(P)sSHROUD_capsule_data *) &r); %(P)sSHROUD_memory_destructor((%(P)sSHROUD_capsule_data *) &x); %(P)sSHROUD_memory_destructor((%(P)sSHROUD_capsule_data *) &y);
  printf("OBS put"); obs_i(%(p1i)s(1)); obs_i(%(p1d)s(1.5)); obs_i(%(p2i)s(2, 3)); obs_i(%(p2d)s(2.5, 3.5)); printf("\n");
  printf("OBS color"); obs_i(%(next)s(%(P)sRED)); obs_i(%(next)s(%(P)sGREEN)); obs_i(%(next)s(%(P)sBLUE)); printf("\n");
  printf("OBS level"); obs_i(%(level)s(%(P)sHIGH)); obs_i(%(level)s(%(P)sNONE)); obs_i(%(level)s(%(P)sLOW)); printf("\n");
  %(over0)s(4); %(over1)s(-1.5);
  %(pick0)s(6); %(pick1)s(7, 1.5);   /* a blank default_arg_suffix entry keeps the plain name for that variant (tutorial.yaml) */
  printf("OBS dflt"); obs_i(%(dflt0)s(3)); obs_i(%(dflt1)s(3, 4)); printf("\n");
  printf("OBS zdflt"); obs_i(%(z0)s(3)); obs_i(%(z1)s(3, 4)); obs_i(%(z2)s(3, 4, 0.5)); printf("\n");
  printf("OBS grade"); obs_i(%(grade)s(%(P)sG_LOW)); obs_i(%(grade)s(%(P)sG_MID)); obs_i(%(grade)s(%(P)sG_HIGH)); obs_i(%(grade)s(%(P)sG_TOP)); obs_i(%(grade)s(%(P)sG_PEAK)); printf("\n");
  { int sr[3] = {1, 2, 3}; printf("OBS sumrank"); obs_i(%(sumrank)s(sr, 3)); printf("\n"); }
  printf("OBS tmpl"); obs_i(%(tint)s(41)); obs_d(%(tdbl)s(1.25)); printf("\n");
  printf("OBS weigh"); obs_d(%(w0)s(3, 2.5)); obs_d(%(w1)s(4000000000L, 0.5f)); printf("\n");
  %(order)s(1, 2.5, "three", true); %(order)s(-1, -2.5, "", false);
  printf("OBS ns"); obs_i(%(nsf)s(1)); obs_i(%(innerf)s(1)); printf("\n");
  printf("OBS peek"); obs_i(%(peekc)s(&a)); obs_i(%(peekm)s(&b)); obs_i(%(peekpc)s(&b)); obs_i(%(peekpm)s(&a)); printf("\n");
  %(innerval)s(12, &r); printf("OBS innerval"); obs_i(%(id)s(&r)); printf("\n"); %(P)sSHROUD_memory_destructor((%(P)sSHROUD_capsule_data *) &r);
  %(innernew)s(13, &r); printf("OBS innernew"); obs_i(%(id)s(&r)); printf("\n"); %(P)sSHROUD_memory_destructor((%(P)sSHROUD_capsule_data *) &r);
  %(dtor)s(&a); %(dtor)s(&b);
  return 0;
}
""" % d
    open(os.path.join(out, "driver.c"), "w").write(drv)
    # the object parameter of a wrapped method is const exactly when the method is (the const after the parameter list), whatever
    # the result type's own const says
    proto_errs = []
    htext = "\n".join(open(os.path.join(out, h)).read() for h in sorted(os.listdir(out)) if h.startswith("wrap") and h.endswith(".h"))
    htext = re.sub(r"\s+", " ", htext)
    for key, is_const_method in (("id", True), ("name", True), ("whichc", True), ("add", False), ("slot", False), ("rename", False), ("whichm", False)):
        m = re.search(r"\b%s\(\s*(const\s+)?%s\s*\*\s*self\b" % (re.escape(d[key]), re.escape(T)), htext)
        if not m:
            proto_errs.append(("prototype", "scenario", "[naming %s] no prototype of %s with an object parameter in the wrapper headers" % (naming, d[key])))
        elif bool(m.group(1)) != is_const_method:
            proto_errs.append(("prototype", "scenario", "[naming %s] %s: the object parameter is %s, the C++ method is %s" % (
                naming, d[key], "const" if m.group(1) else "not const", "const" if is_const_method else "not const")))
    exp_obs = ["OBS ids 5 9", "OBS add 8 13 4", "OBS twice 42", "OBS slot 5 9", "OBS names 0:[] 3:[bee]", "OBS which 1 2 1", "OBS byval 7 0", "OBS find 100 101", "OBS ref 3:[zed] 3:[zed] 100", "OBS new 7 8", "OBS val 8", "OBS abc 3 4", "OBS put 11 12 21 22",
               "OBS color 3 4 0", "OBS level 110 100 101", "OBS dflt 32 34", "OBS zdflt 30 34 34", "OBS grade 1001 1005 1006 1100 1101", "OBS sumrank 6", "OBS tmpl 42 " + A.rnd(A.NATIVE["double"], 2.5),
               "OBS weigh %s %s" % (A.rnd(A.NATIVE["double"], 7.5), A.rnd(A.NATIVE["double"], 2e9)), "OBS ns 2 3", "OBS peek 1005 2009 3009 4005", "OBS innerval 12", "OBS innernew 13"]
    D = A.NATIVE["double"]
    exp_recv = ["RECV Cls::Cls id=5", "RECV Cls::Cls id=9", "RECV Cls::add this=5 x=3", "RECV Cls::add this=9 x=4", "RECV Cls::add this=5 x=-1",
                "RECV Cls::twice x=21", "RECV Cls::rename this=9 name=3:[bee]", "RECV Cls::rename this=5 name=0:[]",
                "RECV Cls::which-const this=5", "RECV Cls::which-mutable this=9", "RECV Cls::which-const this=9",
                "RECV takes c=5 d=9", "RECV takes c=9 d=5",
                "RECV Cls::copy id=5", "RECV byVal c=5 extra=2", "RECV Cls::~Cls this=5", "RECV Cls::copy id=9", "RECV byVal c=9 extra=-9", "RECV Cls::~Cls this=9",
                "RECV Cls::Cls id=100", "RECV Cls::Cls id=101", "RECV findCls id=0", "RECV findCls id=3",
                "RECV refCls id=0", "RECV Cls::rename this=100 name=3:[zed]", "RECV findCls id=0", "RECV crefCls id=2",
                "RECV newCls id=7", "RECV Cls::Cls id=7", "RECV Cls::add this=7 x=1", "RECV Cls::~Cls this=7",
                "RECV valCls id=8", "RECV Cls::Cls id=8", "@copies", "RECV Cls::~Cls this=8",
                "RECV newAbc id=3", "RECV Abc::Abc id=3", "RECV Abc::Abc id=4", "RECV newCls id=6", "RECV Cls::Cls id=6",
                "RECV Cls::~Cls this=6", "RECV Abc::~Abc this=3", "RECV Abc::~Abc this=4",
                "RECV put<int>(1) v=1", "RECV put<double>(1) v=" + A.rnd(D, 1.5), "RECV put<int>(2) v=2 w=3", "RECV put<double>(2) v=%s w=%s" % (A.rnd(D, 2.5), A.rnd(D, 3.5)),
                "RECV nextColor c=0", "RECV nextColor c=3", "RECV nextColor c=4",
                "RECV levelValue lv=10", "RECV levelValue lv=0", "RECV levelValue lv=1",
                "RECV over(int) a=4", "RECV over(double) a=" + A.rnd(D, -1.5), "RECV pick a=6 b=" + A.rnd(D, 0.5), "RECV pick a=7 b=" + A.rnd(D, 1.5),
                "RECV dflt a=3 b=2", "RECV dflt a=3 b=4",
                "RECV zdflt a=3 by=0 w=" + A.rnd(D, 0.0), "RECV zdflt a=3 by=4 w=" + A.rnd(D, 0.0), "RECV zdflt a=3 by=4 w=" + A.rnd(D, 0.5),
                "RECV gradeValue g=1", "RECV gradeValue g=5", "RECV gradeValue g=6", "RECV gradeValue g=100", "RECV gradeValue g=101", "RECV sumRank n=3",
                "RECV tmpl<int> a=41", "RECV tmpl<double> a=" + A.rnd(D, 1.25),
                "RECV weigh<int,double> count=3 scale=" + A.rnd(D, 2.5), "RECV weigh<long,float> count=4000000000 scale=" + A.rnd(A.NATIVE["float"], 0.5),
                "RECV order a=1 b=%s c=5:[three] d=1" % A.rnd(D, 2.5), "RECV order a=-1 b=%s c=0:[] d=0" % A.rnd(D, -2.5),
                "RECV ns::nsf a=1", "RECV ns::inner::innerf a=1",
                "RECV peek(const) c=5", "RECV peek(mut) c=9", "RECV Cls::add this=9 x=0", "RECV peekp(const) c=9", "RECV peekp(mut) c=5",
                "RECV ns::inner::innerVal id=12", "RECV Cls::Cls id=12", "@copies12", "RECV Cls::~Cls this=12",
                "RECV ns::inner::innerNew id=13", "RECV Cls::Cls id=13", "RECV Cls::~Cls this=13",
                "RECV Cls::~Cls this=5", "RECV Cls::~Cls this=9"]
    errs = list(locals().get("proto_errs", []))
    try:
        objs = build.compile_c_family(out, sorted(f for f in os.listdir(out) if f.endswith((".c", ".cpp"))), "cxx")
        build.link(out, objs, "drv", fortran=False, cxx=True)
    except build.BuildError as e:
        shutil.rmtree(workdir, ignore_errors=True)
        return [("build", "scenario", "[naming %s] %s" % (naming, str(e)[:900]))], 0
    rc, so, se, tr = build.run_exe(out, "drv")
    got_obs = [l for l in so.split("\n") if l.startswith("OBS ")]
    got_recv = [l for l in tr.split("\n") if l.startswith("RECV ")]
    if rc != 0:
        errs.append(("run", "scenario", "exit %d %s" % (rc, se[-300:])))
    if got_obs != exp_obs:
        for g, e in zip(got_obs + ["(missing)"] * len(exp_obs), exp_obs):
            if g != e:
                errs.append(("mismatch", "scenario " + e.split()[1], "[naming %s] scenario observed %r, expected %r" % (naming, g, e)))
                break
    # by-value return: copies made by the wrapper (copy + destructor of the temporary) are its own business
    gi = 0
    for e in exp_recv:
        if e.startswith("@copies"):
            cid = e[len("@copies"):] or "8"
            while gi < len(got_recv) and (got_recv[gi].startswith("RECV Cls::copy id=" + cid) or
                                          (got_recv[gi] == "RECV Cls::~Cls this=" + cid and gi + 1 < len(got_recv) and
                                           got_recv[gi + 1].startswith(("RECV Cls::copy id=" + cid, "RECV Cls::~Cls this=" + cid)))):
                gi += 1
            continue
        g = got_recv[gi] if gi < len(got_recv) else "(missing)"
        if g != e:
            errs.append(("mismatch", "scenario trace " + e.split()[1], "[naming %s] scenario: library received %r, expected %r" % (naming, g, e)))
            break
        gi += 1
    shutil.rmtree(workdir, ignore_errors=True)
    return errs, len(exp_recv) + len(exp_obs)


# ---------------------------------------------------------------- overload sets a C pointer could reach by the wrong door
STR_OVER_YAML = """\
library: Sov
cxx_header: sov.hpp
options:
  wrap_fortran: false
declarations:
- decl: int put(std::string s)
- decl: int put(const char *s)
- decl: int give(std::string s, bool flag)
- decl: int give(bool s, bool flag)
- decl: int take(const std::string &s)
- decl: int take(bool s)
- decl: int pick(const std::string *s)
- decl: int pick(const void *s)
"""
STR_OVER_HPP = """#include <string>
int put(std::string s); int put(const char *s); int give(std::string s, bool flag); int give(bool s, bool flag);
int take(const std::string &s); int take(bool s); int pick(const std::string *s); int pick(const void *s);
"""
STR_OVER_CPP = A.SUBJECT_PRELUDE + """
#include "sov.hpp"
static int said(const char *what, int rv) { vt_txt("RECV "); vt_txt(what); vt_txt("\\n"); return rv; }
int put(std::string s) { return said("put(string)", 10 + (int) s.size()); }
int put(const char *s) { return said("put(char*)", 20); }
int give(std::string s, bool flag) { return said("give(string,bool)", 30 + (int) s.size()); }
int give(bool s, bool flag) { return said("give(bool,bool)", 40); }
int take(const std::string &s) { return said("take(string&)", 50 + (int) s.size()); }
int take(bool s) { return said("take(bool)", 60); }
int pick(const std::string *s) { return said("pick(string*)", 70 + (int) s->size()); }
int pick(const void *s) { return said("pick(void*)", 80); }
"""


def string_overloads_case(workdir):
    """A std::string parameter next to an overload that a char pointer converts to more readily (const char *, bool, void *):
    each C entry point runs the overload it is named after."""
    import yaml

    os.makedirs(workdir)
    r, tree = gen.gen_tree(workdir, yaml.safe_load(STR_OVER_YAML), keep=True)
    if r.status != "ok":
        shutil.rmtree(workdir, ignore_errors=True)
        return [("generate", "string overloads", "%s %s: %s" % (r.status, r.exc, (r.msg or "")[:300]))], 0
    out = os.path.join(workdir, "out")
    open(os.path.join(out, "sov.hpp"), "w").write(STR_OVER_HPP)
    open(os.path.join(out, "subject.cpp"), "w").write(STR_OVER_CPP)
    drv = drv_c.C_PRELUDE + '#include "wrapSov.h"\n' + r"""
int main(void) {
  printf("OBS put"); obs_i(SOV_put_0("ab")); obs_i(SOV_put_1("ab")); printf("\n");
  printf("OBS give"); obs_i(SOV_give_0("abc", true)); obs_i(SOV_give_1(true, false)); printf("\n");
  printf("OBS take"); obs_i(SOV_take_0("a")); obs_i(SOV_take_1(false)); printf("\n");
  printf("OBS pick"); obs_i(SOV_pick_0("abcd")); obs_i(SOV_pick_1("x")); printf("\n");
  return 0;
}
"""
    open(os.path.join(out, "driver.c"), "w").write(drv)
    exp_obs = ["OBS put 12 20", "OBS give 33 40", "OBS take 51 60", "OBS pick 74 80"]
    exp_recv = ["RECV put(string)", "RECV put(char*)", "RECV give(string,bool)", "RECV give(bool,bool)", "RECV take(string&)", "RECV take(bool)", "RECV pick(string*)", "RECV pick(void*)"]
    errs = []
    try:
        objs = build.compile_c_family(out, sorted(f for f in os.listdir(out) if f.endswith((".c", ".cpp"))), "cxx")
        build.link(out, objs, "drv", fortran=False, cxx=True)
    except build.BuildError as e:
        shutil.rmtree(workdir, ignore_errors=True)
        return [("build", "string overloads", str(e)[:900])], 0
    rc, so, se, tr = build.run_exe(out, "drv")
    got_obs = [l for l in so.split("\n") if l.startswith("OBS ")]
    got_recv = [l for l in tr.split("\n") if l.startswith("RECV ")]
    if rc != 0:
        errs.append(("run", "string overloads", "exit %d %s" % (rc, se[-300:])))
    for g, e in zip(got_recv + ["(missing)"] * len(exp_recv), exp_recv):
        if g != e:
            errs.append(("mismatch", "string overloads " + e.split()[1], "the C entry point named after %s ran %s" % (e[5:], g[5:] if g.startswith("RECV ") else g)))
    if got_obs != exp_obs and not errs:
        errs.append(("mismatch", "string overloads values", "observed %r, expected %r" % (got_obs, exp_obs)))
    shutil.rmtree(workdir, ignore_errors=True)
    return errs, len(exp_recv) + len(exp_obs)


# regression/run/tutorial/testc.c is stale upstream (it includes wrapClass1.h, which tutorial.yaml has not produced since Class1 moved to classes.yaml)
UPSTREAM_C = ["classes", "enum-c", "namespace", "statement", "struct-cxx", "templates", "types"]


def upstream_c_case(args):
    """Upstream's own C test program (regression/run/<name>/testc.c) against the wrappers generated from the current tree."""
    workdir, repo, name = args
    from .. import corpus
    from . import c05

    cfg = [c for c in corpus.configs(repo) if c[0] == name]
    src = os.path.join(repo, "regression", "run", name, "testc.c")
    if not cfg or not os.path.exists(src):
        return name, "skipped", "no configuration / no testc.c"
    out = os.path.join(workdir, "out")
    r = corpus.generate(repo, cfg[0], out, [])
    if r.status != "ok":
        shutil.rmtree(workdir, ignore_errors=True)
        return name, "skipped", "does not generate (C05's subject): %s" % (r.msg or "")[:100]
    info = c05.run_info(repo, name)
    if info is None:
        shutil.rmtree(workdir, ignore_errors=True)
        return name, "skipped", "needs another library's output"
    lang = "c" if name.endswith("-c") else "cxx"
    incs = ["-I."] + ["-I" + i for i in info["incs"]]
    objs = []
    try:
        for s_ in info["srcs"] + sorted(os.path.join(out, f) for f in os.listdir(out) if f.startswith(("wrap", "util")) and f.endswith((".c", ".cpp"))):
            if (s_.endswith(".c") != (lang == "c")) and s_ in info["srcs"] and len(info["srcs"]) > 1:
                continue
            o = os.path.basename(s_) + ".o"
            # a library kept in one .c file is compiled as the language of the configuration (as upstream's Makefile does)
            as_c = s_.endswith(".c") and (lang == "c" or s_ not in info["srcs"])
            rc, so, se = build.sh((["gcc", "-std=c99"] if as_c else ["g++", "-std=c++11", "-x", "c++"]) + ["-g", "-O0", "-w"] + incs + ["-c", s_, "-o", o], out)
            if rc != 0:
                raise build.BuildError("compile " + os.path.basename(s_), se[:300])
            objs.append(o)
        rc, so, se = build.sh(["gcc", "-std=c99", "-g", "-O0", "-w"] + incs + ["-c", src, "-o", "testc.o"], out)
        if rc != 0:
            shutil.rmtree(workdir, ignore_errors=True)
            return name, "api", "upstream's C test program does not compile against the generated headers: %s" % se[:500]
        rc, so, se = build.sh(["g++", "-o", "testc", "testc.o"] + objs, out)
        if rc != 0:
            raise build.BuildError("link", se[:300])
    except build.BuildError as e:
        shutil.rmtree(workdir, ignore_errors=True)
        return name, "skipped", "does not build (C05's subject): %s" % str(e)[:160]
    rc, so, se = build.sh(["./testc"], out, timeout=60)
    shutil.rmtree(workdir, ignore_errors=True)
    if rc != 0:
        return name, "fail", "exit %d: %s" % (rc, ((se or "") + (so or ""))[-400:])
    return name, "ok", ""


def run(ctx):
    quick = ctx.tier == "quick"
    W = ctx.workers
    wd = ctx.subdir("w")
    level = 1 if quick else 2
    libs = [("Lone%d" % i, part, None) for i, part in enumerate(c01.chunks(c01.l1_funcs(level), 30))]
    libs += [("Ltwo%d" % i, part, 6) for i, part in enumerate(c01.chunks(c01.l2_funcs(quick), 30))]
    jobs = []
    for name, funcs, cap in libs:
        for naming in NAMING:
            if naming == "custom" and name.startswith("Ltwo") and quick:
                continue
            jobs.append((os.path.join(wd, "j%d" % len(jobs)), name, funcs, naming, cap, False))
    res = isolate.pmap(atom_case, jobs, W)
    retry = []
    for job, r in zip(jobs, res):
        if r.get("retry"):
            for f in job[2]:
                if "cxx" in f.langs() and drv_c.supported(f):
                    retry.append((os.path.join(wd, "r%d" % len(retry)), job[1] + "x", [f], job[3], job[4], False))
    rres = isolate.pmap(atom_case, retry, W) if retry else []
    calls = 0
    sigs = set()
    unbuilt = set()
    for job, r in list(zip(jobs, res)) + list(zip(retry, rres)):
        if r.get("retry") and len(job[2]) > 1:
            continue
        calls += r["calls"]
        for f in job[2]:
            if "cxx" in f.langs() and drv_c.supported(f):
                sigs.add(c01.atom_sig(f))
        for kind, decl, msg in r["errs"]:
            if decl is None and len(job[2]) == 1:
                decl = job[2][0].decl()
            if kind in ("generate", "build"):
                unbuilt.add("%s [%s]" % (decl, job[3]))
                sig0 = c01.atom_sig(job[2][0])
                if len(job[2]) == 1 and not any(c01.known_unbuildable(ctx, sig0, "cxx", sub, 0) for sub in ("c", "c+f")):
                    ctx.violation("not-callable %s [naming %s]" % (sig0, job[3]), "%s has no callable C entry point (naming %s): %s" % (decl, job[3], msg[:700]),
                                  {"kind": "not-callable", "decl": decl, "naming": job[3]})
                continue
            ctx.violation("%s %s [naming %s]" % (kind, decl, job[3]), msg, {"kind": kind, "decl": decl, "naming": job[3]})
    snames = list(NAMING) + list(SCOPE_CASES)
    sres = isolate.pmap(scenario_case, [(os.path.join(wd, "s-" + n), n) for n in snames], W)
    for (errs, n), naming in zip(sres, snames):
        calls += n
        for kind, what, msg in errs:
            ctx.violation("%s %s [naming %s]" % (kind, what, naming), msg, {"kind": kind, "scenario": True, "naming": naming})
    oerrs, on = isolate.call_in_child(string_overloads_case, (os.path.join(wd, "strover"),), timeout=300).value
    calls += on
    for kind, what, msg in oerrs:
        ctx.violation("%s %s" % (kind, what), msg, {"kind": kind, "string_overloads": True})
    ures = isolate.pmap(upstream_c_case, [(os.path.join(wd, "up-" + n), ctx.repo, n) for n in UPSTREAM_C], W)
    ran, skipped = [], []
    for name, st, info in ures:
        if st == "skipped":
            skipped.append("%s: %s" % (name, info))
            continue
        ran.append(name)
        calls += 1
        if st != "ok":
            ctx.violation("upstream c test %s %s" % (name, st), "upstream's own C test program regression/run/%s/testc.c: %s" % (name, info), {"kind": "upstream-test", "config": name})
    ctx.part("upstream_c_tests", configurations_run=ran, skipped=skipped)
    ctx.count(states=len(sigs) + 2, transitions=calls, validated=calls)
    ctx.nontrivial_n(len(sigs) + 2)
    ctx.part("atom_libraries", libraries=len(jobs), function_shapes=len(sigs), calls=calls, namings=list(NAMING),
             not_callable=len(unbuilt), not_callable_examples=sorted(unbuilt)[:8])
    ctx.part("scenario", items="class ctor/dtor/const/static/instance methods on two objects, class arguments, results by pointer (library and caller owned) and by value, enum, overloads, defaults, template instances, argument order, nested namespaces")
    ctx.sample({"function": "void f(std::string &x +intent(inout), const char *y)", "c_call": "LON_f(buf, \"ab  \")"})
    ctx.cov["rule"] = ("C++ libraries from the atom table at L1 and L2 (atoms with a plain C API) and a class/namespace/overload scenario, each under the default and a "
                      "customised C_prefix/C_name_template; a generated C program calls every function over the value alphabets; trace and observations compared with the model")
    ctx.assumptions += ["std::vector arguments/results and std::string results by value have no plain C entry point and are covered through Fortran (C01)",
                        "copy constructions the wrapper performs for a by-value class result are not prescribed"]


def replay(ctx, path):
    with open(path) as fp:
        p = json.load(fp)["payload"]
    print(p)
    ctx.count(states=1, transitions=1)
