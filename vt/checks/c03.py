"""C03 - the generated Python extension is call-equivalent to the wrapped library.

Libraries assembled from the numpy-free rows of the atom table (PY_array_arg=list), language
c and c++, are wrapped by the real shroud, built as CPython 3.12 extension modules and
imported by a child interpreter that calls every function: every split point between
positional and keyword arguments, every number of omitted trailing defaults, every position
with every value of a wrong-type menu, too many / too few / unknown-keyword calls.
Oracle: returned object(s) and the library's RECV trace equal the reference model; a
non-matching call raises TypeError/ValueError - never SystemError, a crash or a silent call.
"""
from __future__ import annotations

import json
import os
import shutil
import sysconfig

from .. import atoms as A
from .. import build, drv_f, drv_py, gen, isolate
from . import c01

PYINC = sysconfig.get_paths()["include"]
PY = "/venv/bin/python"


def case(args):
    """One library; a function that kills the interpreter is reported and the library re-run without it."""
    workdir, libname, funcs, lang, cap, quick = args
    allerrs, calls, n = [], 0, 0
    funcs = list(funcs)
    for attempt in range(12):
        r = case1((workdir + "_%d" % attempt, libname, funcs, lang, cap, quick))
        allerrs += r["errs"]
        calls += r["calls"]
        n = max(n, r["n"])
        dead = r.get("crashed_function")
        if r.get("retry") or not dead:
            r["errs"], r["calls"], r["n"] = allerrs, calls, n
            return r
        funcs = [f for f in funcs if f.name != dead]
    r["errs"], r["calls"], r["n"] = allerrs, calls, n
    return r


def case1(args):
    workdir, libname, funcs, lang, cap, quick = args
    funcs = [f for f in funcs if lang in f.langs() and drv_py.supported(f)]
    lib = A.Library(libname, funcs, lang)
    res = {"calls": 0, "errs": [], "n": len(lib.funcs)}
    if not lib.funcs:
        return res
    y = lib.yaml({"wrap_c": False, "wrap_fortran": False, "wrap_python": True, "wrap_lua": False, "PY_array_arg": "list"})
    os.makedirs(workdir)
    r, tree = gen.gen_tree(workdir, y, keep=True)
    if r.status != "ok":
        res["errs"].append(("generate", None, "%s %s: %s" % (r.status, r.exc, (r.msg or "")[:300])))
        res["retry"] = True
        shutil.rmtree(workdir, ignore_errors=True)
        return res
    out = os.path.join(workdir, "out")
    with open(os.path.join(out, lib.header_name()), "w") as fp:
        fp.write(lib.header())
    ext = "c" if lang == "c" else "cpp"
    with open(os.path.join(out, "subject." + ext), "w") as fp:
        fp.write(lib.source())
    module = libname.lower()
    plans = {f.name: drv_f.call_plans(f, cap) for f in lib.funcs}
    src, exp = drv_py.driver(lib, plans, module, quick)
    with open(os.path.join(out, "driver.py"), "w") as fp:
        fp.write(src)
    try:
        csrc = sorted(f for f in os.listdir(out) if f.endswith((".c", ".cpp")))
        objs = build.compile_c_family(out, csrc, lang, incs=[PYINC], extra=["-fPIC"])
        cc = ["g++"] if lang != "c" else ["gcc"]
        rc, so, se = build.sh(cc + ["-shared", "-o", module + ".so"] + objs, out)
        if rc != 0:
            raise build.BuildError("link", se[:800])
    except build.BuildError as e:
        res["errs"].append(("build", None, str(e)[:900]))
        res["retry"] = True
        shutil.rmtree(workdir, ignore_errors=True)
        return res
    env = dict(os.environ, VT_TRACE=os.path.join(out, "trace.txt"), PYTHONDONTWRITEBYTECODE="1")
    rc, so, se = build.sh([PY, "driver.py"], out, env=env, timeout=300)
    tr = open(os.path.join(out, "trace.txt"), errors="replace").read() if os.path.exists(os.path.join(out, "trace.txt")) else ""
    got_obs = [l for l in so.split("\n") if l.startswith("OBS ")]
    per = {}
    cur = None
    for l in tr.split("\n"):
        if l.startswith("CALL "):
            cur = tuple(l[5:].split(" ", 1))
            per[cur] = []
        elif l.startswith("RECV ") and cur is not None:
            per[cur].append(l)
    res["calls"] = len(exp)
    gmap = {}
    for l in got_obs:
        p = l.split()
        gmap[(p[1], p[2])] = l
    bad = {}
    crashed = None
    for fname, tag, line, recvs in exp:
        g = gmap.get((fname, tag))
        if g is None:
            if rc != 0 and crashed is None:
                crashed = (fname, tag, line)
            continue
        if g != line:
            bad.setdefault(fname, []).append("call %s: got %r, expected %r" % (tag, g, line))
        got_r = per.get((fname, tag), [])
        if "raises TypeError/ValueError" in line:
            if got_r:
                bad.setdefault(fname, []).append("call %s: the call is refused but the library was called: %r" % (tag, got_r))
        elif "raises" not in g and got_r != recvs:
            bad.setdefault(fname, []).append("call %s: library received %r, expected %r" % (tag, got_r, recvs))
    if crashed:
        cf = [f for f in lib.funcs if f.name == crashed[0]]
        res["crashed_function"] = crashed[0]
        res["errs"].append(("crash", cf[0].decl() if cf else crashed[0], "%s: the interpreter died in call %s (expected %r): exit %d %s" % (
            crashed[0], crashed[1], crashed[2], rc, (se or "")[-300:].replace("\n", " | "))))
    elif rc != 0:
        res["errs"].append(("run", None, "driver exit %d: %s" % (rc, (se or "")[-400:])))
    fmap = {f.name: f for f in lib.funcs}
    for fname, msgs in bad.items():
        f = fmap.get(fname)
        groups = {"ssize_t_clean": [], "mutates-argument": [], "mismatch": []}
        for m in msgs:
            if "PY_SSIZE_T_CLEAN" in m:
                groups["ssize_t_clean"].append(m)
            elif "ARG-MUTATED" in m and m.split("expected")[0].replace(" ARG-MUTATED", "").split("got ")[1].strip(" ,'\"") == m.split("expected ")[1].strip(" '\""):
                groups["mutates-argument"].append(m)
            else:
                groups["mismatch"].append(m)
        for kind, ms in groups.items():
            if ms:
                res["errs"].append((kind, f.decl() if f else fname, "[%s] %s: %d calls differ; first: %s   (decl: %s)" % (
                    lang, fname, len(ms), ms[0], f.decl() if f else "?")))
    shutil.rmtree(workdir, ignore_errors=True)
    return res


# ---------------------------------------------------------------- class / namespace scenario
PSCEN_DRIVER = r"""
import sys
import cee
def show(tag, fn):
    try:
        r = fn()
        print("OBS %s -> %r" % (tag, r))
    except (TypeError, ValueError) as e:
        print("OBS %s raises TypeError/ValueError" % tag)
    except BaseException as e:
        print("OBS %s raises %s" % (tag, type(e).__name__))
    sys.stdout.flush()
a = cee.Cls(5)
b = cee.Cls(id=9)
show("ids", lambda: (a.id(), b.id()))
show("add", lambda: (a.add(3), b.add(x=4), a.add(-1)))
show("twice", lambda: (cee.Cls.twice(21), a.twice(x=2)))
show("rename", lambda: (b.rename("bee"), a.rename(name="")))
show("names", lambda: (a.name(), b.name()))
show("find", lambda: (cee.findCls(0).id(), cee.findCls(id=3).id()))
show("ref", lambda: (cee.refCls(0).rename("zed"), cee.findCls(0).name(), cee.refCls(2).name(), cee.refCls(3).id()))
r = cee.newCls(7)
show("new", lambda: (r.id(), r.add(1), type(r) is cee.Cls))
show("color", lambda: (cee.nextColor(cee.RED), cee.nextColor(cee.GREEN), cee.nextColor(c=cee.BLUE)))
show("over", lambda: (cee.over(4), cee.over(-1.5)))
show("dflt", lambda: (cee.dflt(3), cee.dflt(3, 4), cee.dflt(3, b=5), cee.dflt(a=6)))
show("tmpl", lambda: (cee.tmpl(41), cee.tmpl(1.25)))
show("weigh", lambda: (cee.weigh(3, 2.5), cee.weigh(count=3, scale=0.5)))
show("order", lambda: (cee.order(1, 2.5, "three", True), cee.order(d=False, c="", b=-2.5, a=-1)))
show("ns", lambda: (cee.ns.nsf(1), cee.ns.inner.innerf(1)))
show("dims", lambda: (cee.halo(1, 3), cee.halo(m=2, n=2), cee.nodes(1, 3), cee.nodes(2, 2), cee.halo(0, 1)))
show("total", lambda: (cee.total([1, 2, 3]), cee.total([1.5, 2.0]), cee.total([1, 2, 3.5]), cee.total(v=[0.25, 0.25]), cee.total([])))
show("scale", lambda: (cee.scale(5), cee.scale(5, 2), cee.scale(n=4), cee.scale("ab", 1, 2, 3)))
show("tally", lambda: (cee.tally([1, 2, 3]), cee.tally([1, 2, 3], 10), cee.tally(v=[4]), cee.tally(1, 2, 3, 4)))
show("filltext", lambda: cee.fillText())
rec = cee.Rec(2, 7, 1.5)
show("rec", lambda: (rec.id, rec.serial, rec.w, cee.recWeight(rec), cee.Rec(id=3, serial=1, w=2.0).serial, cee.recWeight(cee.Rec(4, 5, 0.5))))
ser = cee.Ser(3, [1, 2, 3])
show("ser", lambda: (ser.n, ser.data, cee.serSum(ser), cee.serShift(ser, 10), ser.data, cee.serSum(ser)))
ser2 = cee.Ser(data=(5, 6, 7, 8), n=4)
def ser_set():
    ser2.data = [1, 1, 1, 1]
    cee.serShift(step=2, s=ser2)
    return (ser2.data, cee.serSum(ser2))
show("ser-set", ser_set)
import sys
rec2 = cee.Rec(1, 2, 0.5)
def rec_bump():
    # an inout struct-as-class argument comes back next to the result: the caller's object keeps exactly the references it had
    before = sys.getrefcount(rec2)
    outs = [cee.recBump(rec2, 3)[0] for _ in range(5)]
    same = cee.recBump(rec2, 0)[1] is rec2
    return (outs, rec2.id, same, sys.getrefcount(rec2) - before)
show("rec-bump", rec_bump)
rec3 = cee.Rec(4, 2, 0.5)
before3 = sys.getrefcount(rec3)
for _ in range(5):
    cee.recTwice(rec3)
print("REF rec-twice id=%d delta=%d" % (rec3.id, sys.getrefcount(rec3) - before3))
show("over-kw", lambda: (cee.over(a=7), cee.over(a=0.5), cee.tmpl(a=2)))
show("bad-add", lambda: a.add("x"))
show("bad-ctor", lambda: cee.Cls())
show("bad-over", lambda: cee.over("text"))
show("bad-extra", lambda: a.id(1))
show("bad-kw", lambda: cee.dflt(3, nosuch=1))
"""


def python_scenario(args):
    workdir, lang = args[:2]
    more = args[2] if len(args) > 2 else {}
    import yaml as _y

    from . import c02

    y = _y.safe_load(c02.SCEN_YAML)
    y["options"] = dict({"wrap_fortran": False, "wrap_c": False, "wrap_python": True, "wrap_lua": False, "PY_array_arg": "list"}, **more)
    # left out: by-value class result, const class reference result, class-pointer free function (they do not build or crash: C05 / known findings),
    # the const / non-const pair (no documented rule says which one Python reaches)
    y["declarations"] = [d for d in y["declarations"] if not d["decl"].startswith(("Cls valCls", "void takes", "int byVal", "const Cls &crefCls", "int sumRank"))]
    for d in y["declarations"]:
        if d["decl"] == "class Cls":
            d["declarations"] = [m for m in d["declarations"] if "which" not in m["decl"]]
    # a struct that Python sees as a class (PY_struct_arg: class): constructor over the members, one of them read-only
    y["declarations"].append({"decl": "struct Rec { int id; int serial +readonly; double w; };", "options": {"PY_struct_arg": "class"}})
    y["declarations"].append({"decl": "double recWeight(const Rec *r)", "options": {"PY_struct_arg": "class"}})
    y["declarations"].append({"decl": "int recBump(Rec *r +intent(inout), int by)", "options": {"PY_struct_arg": "class"}})
    y["declarations"].append({"decl": "void recTwice(Rec *r +intent(inout))", "options": {"PY_struct_arg": "class"}})
    # and one with a pointer member: what Python reads is what the C array holds now (the library writes through the pointer)
    y["declarations"].append({"decl": "struct Ser { int n; int *data +dimension(n); };", "options": {"PY_struct_arg": "class"}})
    y["declarations"].append({"decl": "int serSum(const Ser *s)", "options": {"PY_struct_arg": "class"}})
    y["declarations"].append({"decl": "void serShift(const Ser *s, int step)", "options": {"PY_struct_arg": "class"}})
    rec_hpp = ("\nstruct Rec { int id; int serial; double w; };\ndouble recWeight(const Rec *r);\nint recBump(Rec *r, int by);\nvoid recTwice(Rec *r);\nstruct Ser { int n; int *data; };\nint serSum(const Ser *s);\n"
               "void serShift(const Ser *s, int step);\n")
    ser_cpp = ('\nint serSum(const Ser *s) { int t = 0; vt_txt("RECV serSum n="); vt_i(s->n); vt_txt("\\n"); for (int i = 0; i < s->n; i++) t += s->data[i]; return t; }\n'
               'void serShift(const Ser *s, int step) { vt_txt("RECV serShift n="); vt_i(s->n); vt_txt(" step="); vt_i(step); vt_txt("\\n"); for (int i = 0; i < s->n; i++) s->data[i] += step; }\n')
    rec_cpp = ('\ndouble recWeight(const Rec *r) { vt_txt("RECV recWeight id="); vt_i(r->id); vt_txt(" serial="); vt_i(r->serial); vt_txt(" w="); vt_d(r->w); vt_txt("\\n"); return r->w * 2; }\n')
    rec_cpp += ('int recBump(Rec *r, int by) { vt_txt("RECV recBump id="); vt_i(r->id); vt_txt(" by="); vt_i(by); vt_txt("\\n"); r->id += by; return r->id * 10; }\n'
                'void recTwice(Rec *r) { vt_txt("RECV recTwice id="); vt_i(r->id); vt_txt("\\n"); r->id *= 2; }\n')
    os.makedirs(workdir)
    r, tree = gen.gen_tree(workdir, y, keep=True)
    if r.status != "ok":
        shutil.rmtree(workdir, ignore_errors=True)
        return [("generate", "scenario", "%s %s: %s" % (r.status, r.exc, (r.msg or "")[:300]))], 0
    out = os.path.join(workdir, "out")
    open(os.path.join(out, "cee.hpp"), "w").write(c02.SCEN_HPP.replace("#endif", rec_hpp + "#endif"))
    open(os.path.join(out, "subject.cpp"), "w").write(c02.SCEN_CPP + rec_cpp + ser_cpp)
    open(os.path.join(out, "driver.py"), "w").write(PSCEN_DRIVER)
    try:
        csrc = sorted(f for f in os.listdir(out) if f.endswith(".cpp"))
        objs = build.compile_c_family(out, csrc, "cxx", incs=[PYINC], extra=["-fPIC"])
        rc, so, se = build.sh(["g++", "-shared", "-o", "cee.so"] + objs, out)
        if rc != 0:
            raise build.BuildError("link", se[:800])
    except build.BuildError as e:
        shutil.rmtree(workdir, ignore_errors=True)
        return [("build", "scenario", str(e)[:900])], 0
    env = dict(os.environ, VT_TRACE=os.path.join(out, "trace.txt"), PYTHONDONTWRITEBYTECODE="1")
    rc, so, se = build.sh([PY, "driver.py"], out, env=env, timeout=120)
    tr = open(os.path.join(out, "trace.txt"), errors="replace").read() if os.path.exists(os.path.join(out, "trace.txt")) else ""
    got_obs = [l for l in so.split("\n") if l.startswith("OBS ")]
    got_recv = [l for l in tr.split("\n") if l.startswith("RECV ")]
    D = A.NATIVE["double"]
    exp_obs = ["OBS ids -> (5, 9)", "OBS add -> (8, 13, 4)", "OBS twice -> (42, 4)", "OBS rename -> (None, None)", "OBS names -> ('', 'bee')",
               "OBS find -> (100, 101)", "OBS ref -> (None, 'zed', 'zed', 101)", "OBS new -> (7, 8, True)", "OBS color -> (3, 4, 0)", "OBS over -> (None, None)", "OBS dflt -> (32, 34, 35, 62)",
               "OBS tmpl -> (42, 2.5)", "OBS weigh -> (7.5, 1.5)", "OBS order -> (None, None)", "OBS ns -> (2, 3)", "OBS dims -> (%r, %r, %r, %r, %r)" % (list(range(100, 109)), list(range(100, 108)), list(range(200, 208)), list(range(200, 209)), [100, 101]),
               "OBS total -> (6, 3.5, 6.5, 0.5, 0)", "OBS scale -> ((15, 8), (10, 7), (12, 7), 6)", "OBS tally -> (106, 16, 104, 10)", "OBS filltext -> 'cap=20'", "OBS rec -> (2, 7, 1.5, 3.0, 1, 1.0)", "OBS ser -> (3, [1, 2, 3], 6, None, [11, 12, 13], 36)", "OBS ser-set -> ([3, 3, 3, 3], 12)", "OBS rec-bump -> ([40, 70, 100, 130, 160], 16, True, 0)", "OBS over-kw -> (None, None, 3)", "OBS bad-add raises TypeError/ValueError",
               "OBS bad-ctor raises TypeError/ValueError", "OBS bad-over raises TypeError/ValueError", "OBS bad-extra raises TypeError/ValueError",
               "OBS bad-kw raises TypeError/ValueError"]
    exp_recv = ["RECV Cls::Cls id=5", "RECV Cls::Cls id=9", "RECV Cls::add this=5 x=3", "RECV Cls::add this=9 x=4", "RECV Cls::add this=5 x=-1",
                "RECV Cls::twice x=21", "RECV Cls::twice x=2", "RECV Cls::rename this=9 name=3:[bee]", "RECV Cls::rename this=5 name=0:[]",
                "RECV Cls::Cls id=100", "RECV Cls::Cls id=101", "RECV findCls id=0", "RECV findCls id=3",
                "RECV refCls id=0", "RECV Cls::rename this=100 name=3:[zed]", "RECV findCls id=0", "RECV refCls id=2", "RECV refCls id=3",
                "RECV newCls id=7", "RECV Cls::Cls id=7", "RECV Cls::add this=7 x=1",
                "RECV nextColor c=0", "RECV nextColor c=3", "RECV nextColor c=4",
                "RECV over(int) a=4", "RECV over(double) a=" + A.rnd(D, -1.5),
                "RECV dflt a=3 b=2", "RECV dflt a=3 b=4", "RECV dflt a=3 b=5", "RECV dflt a=6 b=2",
                "RECV tmpl<int> a=41", "RECV tmpl<double> a=" + A.rnd(D, 1.25),
                "RECV weigh<int,double> count=3 scale=" + A.rnd(D, 2.5), "RECV weigh<int,double> count=3 scale=" + A.rnd(D, 0.5),
                "RECV order a=1 b=%s c=5:[three] d=1" % A.rnd(D, 2.5), "RECV order a=-1 b=%s c=0:[] d=0" % A.rnd(D, -2.5),
                "RECV ns::nsf a=1", "RECV ns::inner::innerf a=1", "RECV halo n=1 m=3", "RECV halo n=2 m=2", "RECV nodes n=1 m=3", "RECV nodes n=2 m=2", "RECV halo n=0 m=1", "RECV total(int) n=3", "RECV total(double) n=2", "RECV total(double) n=3", "RECV total(double) n=2", "RECV total(int) n=0",
                "RECV scale(int) n=5 factor=3", "RECV scale(int) n=5 factor=2", "RECV scale(int) n=4 factor=3", "RECV scale(str) name=2:[ab] a=1",
                "RECV tally(arr) n=3 bias=100", "RECV tally(arr) n=3 bias=10", "RECV tally(arr) n=1 bias=100", "RECV tally(4) a=1", "RECV fillText cap=20", "RECV recWeight id=2 serial=7 w=" + A.rnd(D, 1.5), "RECV recWeight id=4 serial=5 w=" + A.rnd(D, 0.5),
                "RECV serSum n=3", "RECV serShift n=3 step=10", "RECV serSum n=3", "RECV serShift n=4 step=2", "RECV serSum n=4",
                "RECV recBump id=1 by=3", "RECV recBump id=4 by=3", "RECV recBump id=7 by=3", "RECV recBump id=10 by=3", "RECV recBump id=13 by=3", "RECV recBump id=16 by=0",
                "RECV recTwice id=4", "RECV recTwice id=8", "RECV recTwice id=16", "RECV recTwice id=32", "RECV recTwice id=64",
                "RECV over(int) a=7", "RECV over(double) a=" + A.rnd(D, 0.5), "RECV tmpl<int> a=2"]
    errs = []
    if rc != 0:
        errs.append(("run", "scenario", "[%s] exit %d %s" % (lang, rc, (se or "")[-300:])))
    for g, e in zip(got_obs + ["(missing)"] * len(exp_obs), exp_obs):
        if g != e:
            errs.append(("mismatch", "scenario " + e.split()[1], "Python scenario observed %r, expected %r" % (g, e)))
            break
    for l in so.split("\n"):
        if l.startswith("REF rec-twice") and l.strip() != "REF rec-twice id=128 delta=0":
            errs.append(("refcount", "scenario rec-twice single-return", "Python scenario: 'void recTwice(Rec *r +intent(inout))' called five times with one struct-as-class object, "
                         "results dropped: %s (expected id=128 delta=0: the caller's object keeps its references)" % l.strip()))
    got_recv = [g for g in got_recv if not g.startswith("RECV Cls::~Cls")]  # when Python releases objects is property C06's subject
    for g, e in zip(got_recv + ["(missing)"] * len(exp_recv), exp_recv):
        if g != e:
            errs.append(("mismatch", "scenario trace " + e.split()[1], "Python scenario: library received %r, expected %r" % (g, e)))
            break
    if len(got_recv) > len(exp_recv):
        errs.append(("mismatch", "scenario trace extra", "Python scenario: the library was called %d more time(s) than the model: %r" % (len(got_recv) - len(exp_recv), got_recv[len(exp_recv):][:3])))
    shutil.rmtree(workdir, ignore_errors=True)
    return errs, len(exp_obs) + len(exp_recv)


# ---------------------------------------------------------------- upstream's own Python test programs
# upstream tests that assert the wording of a CPython error message (which differs between Python versions), not wrapper behaviour
UPSTREAM_PY_VERSION_SPECIFIC = {("classes", "test_class1_create1")}
UPSTREAM_PY = ["ccomplex", "clibrary", "enum-c", "namespace", "strings", "types", "structlist", "templates", "classes", "tutorial", "pointers-list-cxx", "vectors-list"]


def upstream_py_case(args):
    """Generate one corpus configuration, build its extension module when it needs no numpy, run regression/run/<name>/python/test.py."""
    workdir, repo, name = args
    import re

    from .. import corpus
    from . import c05

    cfgs = [c for c in corpus.configs(repo) if c[0] == name]
    test = os.path.join(repo, "regression", "run", name, "python", "test.py")
    if not cfgs or not os.path.exists(test):
        return name, "skipped", "no such configuration / test program"
    if "import numpy" in open(test).read():
        return name, "skipped", "the test program imports numpy"
    os.makedirs(workdir)
    out = os.path.join(workdir, "out")
    r = corpus.generate(repo, cfgs[0], out, [])
    if r.status != "ok":
        shutil.rmtree(workdir, ignore_errors=True)
        return name, "skipped", "generation failed (C05's subject)"
    info = c05.run_info(repo, name)
    srcs = sorted(f for f in os.listdir(out) if f.startswith("py") and f.endswith((".c", ".cpp")))
    if not info or not srcs or any("numpy/" in open(os.path.join(out, f)).read() for f in srcs):
        shutil.rmtree(workdir, ignore_errors=True)
        return name, "skipped", "the generated extension needs numpy"
    objs = []
    for src in srcs + info["srcs"]:
        cc = ["g++", "-std=c++11"] if src.endswith(".cpp") else ["gcc", "-std=c99"]
        o = os.path.basename(src).rsplit(".", 1)[0] + ".o"
        rc, so, se = build.sh(cc + ["-w", "-fPIC", "-I.", "-I" + PYINC] + ["-I" + i for i in info["incs"]] + ["-c", src, "-o", o], out)
        if rc != 0:
            shutil.rmtree(workdir, ignore_errors=True)
            return name, "skipped", "does not compile (C05's subject)"
        objs.append(o)
    mods = re.findall(r"PyInit_(\w+)\(", "".join(open(os.path.join(out, f)).read() for f in srcs))
    if not mods:
        shutil.rmtree(workdir, ignore_errors=True)
        return name, "skipped", "no module init function"
    rc, so, se = build.sh(["g++", "-shared", "-o", mods[0] + ".so"] + objs, out)
    if rc != 0:
        shutil.rmtree(workdir, ignore_errors=True)
        return name, "skipped", "does not link (C05's subject)"
    rc, so, se = build.sh([PY, test], out, env=dict(os.environ, PYTHONPATH=out, PYTHONDONTWRITEBYTECODE="1"), timeout=300)
    text = (se or "") + (so or "")
    shutil.rmtree(workdir, ignore_errors=True)
    m = re.search(r"Ran (\d+) tests?", text)
    ntests = int(m.group(1)) if m else 0
    fails = []
    for blk in re.split(r"\n={20,}\n", text)[1:]:
        blk = re.split(r"\n-{20,}\nRan \d+ test", blk)[0]
        head = blk.split("\n")[0]
        if head.startswith(("FAIL:", "ERROR:")):
            last = [l for l in blk.strip().split("\n") if l.strip() and not l.startswith("-")][-1]
            fails.append((head.split("(")[0].strip(), last.strip()))
    if rc != 0 and not fails:
        fails.append(("exit %d" % rc, text.strip().split("\n")[-1][:200]))
    return name, "ran", (ntests, fails)


# ---------------------------------------------------------------- the whole range of every integer type
INT_RANGES = {"short": (16, True), "int": (32, True), "long": (64, True), "long long": (64, True), "unsigned short": (16, False), "unsigned int": (32, False),
              "unsigned long": (64, False), "unsigned long long": (64, False), "size_t": (64, False), "int8_t": (8, True), "int16_t": (16, True),
              "int32_t": (32, True), "int64_t": (64, True), "uint8_t": (8, False), "uint16_t": (16, False), "uint32_t": (32, False), "uint64_t": (64, False)}
# what each PyArg_Parse format unit stores through the pointer it is given (bytes); CPython's documentation of the units
UNIT_BYTES = {"b": 1, "B": 1, "h": 2, "H": 2, "i": 4, "I": 4, "l": 8, "k": 8, "L": 8, "K": 8, "n": 8, "f": 4, "d": 8, "c": 1, "C": 4, "p": 4}


def int_values(tn):
    bits, signed = INT_RANGES[tn]
    if signed:
        return [0, 1, -1, 2 ** (bits - 1) - 1, -2 ** (bits - 1)]
    return [0, 1, 2 ** (bits - 1) - 1, 2 ** (bits - 1), 2 ** bits - 1]


def integer_range_case(args):
    """Every integer type of the type table as result, as argument and as intent(out) scalar, at the ends of ITS range (a value
    the C type holds is a value the library may return and the caller may pass).  Returns [(key, message)], calls."""
    workdir, lang = args
    import re

    decls, hdr, src = [], "#include <stddef.h>\n#include <stdint.h>\n", '#include "ints.h"\n'
    drv = ["import ints", "def show(tag, fn):", "    try:", "        print('OBS', tag, '->', repr(fn()))", "    except Exception as e:",
           "        print('OBS', tag, 'raises', type(e).__name__)"]
    exp = []
    for tn in sorted(INT_RANGES):
        i = tn.replace(" ", "_")
        bits, signed = INT_RANGES[tn]
        lit = lambda v: ("(%s) %dULL" % (tn, v)) if v >= 0 else ("(%s) (-%dLL - 1)" % (tn, -v - 1))
        decls.append({"decl": "%s echo_%s(%s v)" % (tn, i, tn)})
        hdr += "%s echo_%s(%s v);\n" % (tn, i, tn)
        src += "%s echo_%s(%s v) { return v; }\n" % (tn, i, tn)
        for k, v in enumerate(int_values(tn)):
            decls += [{"decl": "%s res%d_%s(void)" % (tn, k, i)}, {"decl": "void out%d_%s(%s *v +intent(out))" % (k, i, tn)}]
            hdr += "%s res%d_%s(void);\nvoid out%d_%s(%s *v);\n" % (tn, k, i, k, i, tn)
            src += "%s res%d_%s(void) { return %s; }\nvoid out%d_%s(%s *v) { *v = %s; }\n" % (tn, k, i, lit(v), k, i, tn, lit(v))
            for tag, call in (("result", "ints.res%d_%s()" % (k, i)), ("out-argument", "ints.out%d_%s()" % (k, i)), ("argument", "ints.echo_%s(%d)" % (i, v))):
                drv.append("show(%r, lambda: %s)" % ("%s %s %d" % (tn, tag, v), call))
                exp.append(("%s %s %d" % (tn, tag, v), tn, tag, v))
    y = {"library": "ints", "cxx_header": "ints.h", "options": {"wrap_c": False, "wrap_fortran": False, "wrap_lua": False, "wrap_python": True, "PY_array_arg": "list"},
         "declarations": decls}
    if lang == "c":
        y["language"] = "c"
    os.makedirs(workdir)
    r, tree = gen.gen_tree(workdir, y, keep=True)
    if r.status != "ok":
        shutil.rmtree(workdir, ignore_errors=True)
        return [("integer-range generate [%s]" % lang, "%s %s: %s" % (r.status, r.exc, (r.msg or "")[:300]))], 0
    out = os.path.join(workdir, "out")
    ext = "c" if lang == "c" else "cpp"
    open(os.path.join(out, "ints.h"), "w").write(hdr)
    open(os.path.join(out, "subject." + ext), "w").write(src)
    open(os.path.join(out, "driver.py"), "w").write("\n".join(drv) + "\n")
    errs = []
    # (a) each format unit stores into a variable of its own width
    for fn in sorted(os.listdir(out)):
        if not (fn.startswith("py") and fn.endswith("." + ext)):
            continue
        text = open(os.path.join(out, fn)).read()
        for m in re.finditer(r"\n(PY_\w+)\(\n(.*?)\n\}\n", text, re.S):
            body = m.group(2)
            pm = re.search(r'PyArg_ParseTupleAndKeywords\(args, kwds,\s*"([^":]*)[:"][^,]*,\s*[^,]+,\s*([^;]*?)\)\)', body, re.S)
            if not pm:
                continue
            units = [u for u in pm.group(1) if u != "|"]
            targets = [a.strip().lstrip("&") for a in pm.group(2).split(",")]
            for u, var in zip(units, targets):
                dm = re.search(r"^\s*((?:unsigned |long |short |const )*\w+)\s+%s\s*(?:=[^;]*)?;" % re.escape(var), body, re.M)
                if not dm or u not in UNIT_BYTES or dm.group(1) not in INT_RANGES:
                    continue
                have = INT_RANGES[dm.group(1)][0] // 8
                if have != UNIT_BYTES[u]:
                    errs.append(("py: %s argument parsed with format unit '%s'" % (dm.group(1), u),
                                 "%s: %s parses the %s argument '%s' with format unit '%s', which stores %d bytes through the pointer; the variable has %d" % (
                                     fn, m.group(1), dm.group(1), var, u, UNIT_BYTES[u], have)))
    try:
        csrc = sorted(f for f in os.listdir(out) if f.endswith("." + ext))
        objs = build.compile_c_family(out, csrc, lang, incs=[PYINC], extra=["-fPIC"])
        rc, so, se = build.sh(["gcc" if lang == "c" else "g++", "-shared", "-o", "ints.so"] + objs, out)
        if rc != 0:
            raise build.BuildError("link", se[:800])
    except build.BuildError as e:
        shutil.rmtree(workdir, ignore_errors=True)
        return errs + [("integer-range build [%s]" % lang, str(e)[:900])], 0
    rc, so, se = build.sh([PY, "driver.py"], out, env=dict(os.environ, PYTHONDONTWRITEBYTECODE="1"), timeout=120)
    got = {}
    for l in so.split("\n"):
        if l.startswith("OBS "):
            tag, _, val = l[4:].partition(" -> ") if " -> " in l else (l[4:].rpartition(" raises ")[0], "", "raises " + l.rpartition(" raises ")[2])
            got[tag] = val
    if rc != 0:
        errs.append(("integer-range run [%s]" % lang, "driver exit %d: %s" % (rc, (se or "")[-300:])))
    for tag, tn, kind, v in exp:
        g = got.get(tag, "(missing)")
        if g != repr(v):
            bits, signed = INT_RANGES[tn]
            where = "in the signed range" if -2 ** 63 <= v < 2 ** (bits - 1) else "above the range of the signed type of the same width"
            errs.append(("py: %s %s %s" % (tn, kind, where),
                         "[%s] %s %s: the library %s %d, Python %s" % (lang, tn, kind, "receives" if kind == "argument" else "returns", v,
                                                                       "gets %s" % g if not g.startswith("raises") else g)))
    shutil.rmtree(workdir, ignore_errors=True)
    return errs, len(exp)


def class_funcs():
    """Methods act on the object they are called on: covered through the Cls atoms (two live objects) and
    the class scenario below."""
    return []


def run(ctx):
    quick = ctx.tier == "quick"
    W = ctx.workers
    wd = ctx.subdir("w")
    level = 1 if quick else 2
    libs = [("Pone%d" % i, part, None) for i, part in enumerate(c01.chunks(c01.l1_funcs(level), 12))]
    l2 = [f for f in c01.l2_funcs(quick) if drv_py.supported(f)]
    libs += [("Ptwo%d" % i, part, 4) for i, part in enumerate(c01.chunks(l2, 12))]
    jobs = []
    for name, funcs, cap in libs:
        for lang in ("cxx", "c"):
            if quick and lang == "c" and name.startswith("Ptwo"):
                continue
            jobs.append((os.path.join(wd, "j%d" % len(jobs)), name, funcs, lang, cap, quick))
    res = isolate.pmap(case, jobs, W)
    retry = []
    seen = set()
    for job, r in zip(jobs, res):
        if r.get("retry"):
            for f in job[2]:
                if job[3] in f.langs() and drv_py.supported(f):
                    k = (c01.atom_sig(f), job[3])
                    if k in seen:
                        continue
                    seen.add(k)
                    retry.append((os.path.join(wd, "r%d" % len(retry)), job[1] + "x", [f], job[3], job[4], quick))
    rres = isolate.pmap(case, retry, W) if retry else []
    calls = 0
    sigs = set()
    unbuilt = set()
    for job, r in list(zip(jobs, res)) + list(zip(retry, rres)):
        if r.get("retry") and len(job[2]) > 1:
            continue
        calls += r["calls"]
        for f in job[2]:
            if job[3] in f.langs() and drv_py.supported(f):
                sigs.add(c01.atom_sig(f))
        for kind, decl, msg in r["errs"]:
            ctx.outcome("py " + kind)
            if decl is None and len(job[2]) == 1:
                decl = job[2][0].decl()
            if kind in ("generate", "build"):
                # where property C05 records why this shape does not build it is listed as uncovered; otherwise a documented
                # entry point cannot be called from Python at all
                unbuilt.add("%s [%s]" % (decl, job[3]))
                fs = [f for f in job[2] if f.decl() == decl] or list(job[2])
                sig0 = c01.atom_sig(fs[0])
                if len(job[2]) == 1 and not c01.known_unbuildable(ctx, sig0, job[3], "py", 0):
                    ctx.violation("not-callable %s [%s]" % (sig0, job[3]), "%s cannot be called from Python at all (%s): %s" % (decl, job[3], msg[:700]),
                                  {"kind": "not-callable", "decl": decl, "lang": job[3]})
                continue
            sig = None
            for f in job[2]:
                if f.decl() == decl:
                    sig = c01.atom_sig(f)
            key = "%s %s [%s]" % (kind, sig or decl, job[3])
            if kind == "ssize_t_clean":
                key = "py: '#' format units without PY_SSIZE_T_CLEAN"
            elif kind == "mutates-argument" and "cstr_inout" in (sig or ""):
                key = "py: char * +intent(inout) writes into the caller's str object"
            elif kind == "mismatch" and "kwskip" in msg and msg.count("calls differ; first: call kwskip") and " 1 calls differ" in msg:
                key = "py: a later default given by keyword while an earlier one is omitted"
            elif kind == "crash" and "cls_ptr" in (sig or ""):
                key = "py: class pointer argument of a free function crashes the interpreter"
            ctx.violation(key, msg, {"kind": kind, "decl": decl, "lang": job[3]})
    # the second run sets an option that governs only pointer results WITHOUT a shape: every observation stays
    for si, more in enumerate(({}, {"return_scalar_pointer": "scalar"})):
        serrs, sn = python_scenario((os.path.join(wd, "scen%d" % si), "cxx", more))
        calls += sn
        for kind, what, msg in serrs:
            ctx.violation("%s %s%s" % (kind, what, " [%s]" % ",".join(more) if more else ""), msg + (" (options %s)" % more if more else ""), {"kind": kind, "scenario": True, "options": more})
    ires = isolate.pmap(integer_range_case, [(os.path.join(wd, "ints-" + lang), lang) for lang in ("cxx", "c")], W)
    iseen = set()
    for ierrs, n in ires:
        calls += n
        for key, msg in ierrs:
            if key not in iseen:
                iseen.add(key)
                ctx.violation(key, msg, {"kind": "integer-range"})
    ctx.part("integer_ranges", types=sorted(INT_RANGES), values_per_type=5, positions=["result", "out-argument", "argument"], languages=["cxx", "c"])
    ures = isolate.pmap(upstream_py_case, [(os.path.join(wd, "up-" + n), ctx.repo, n) for n in UPSTREAM_PY], W)
    ran, ntests, skipped = [], 0, []
    for name, st, info in ures:
        if st == "skipped":
            skipped.append("%s: %s" % (name, info))
            continue
        nt, fails = info
        ran.append(name)
        ntests += nt
        calls += nt
        for test, last in fails:
            if (name, test.split()[-1]) in UPSTREAM_PY_VERSION_SPECIFIC:
                continue
            key = "upstream python test %s %s" % (name, test)
            if "PY_SSIZE_T_CLEAN" in last:
                key = "py: '#' format units without PY_SSIZE_T_CLEAN"
            ctx.violation(key, "upstream's own Python test program regression/run/%s/python/test.py: %s: %s" % (name, test, last), {"kind": "upstream-test", "config": name})
    ctx.part("upstream_python_tests", configurations_run=ran, tests=ntests, skipped=skipped)
    ctx.part("scenario", items="class constructor, instance / static methods on two objects by position and keyword, class results, enum, overload and template dispatch by Python type, defaults by position and keyword, keyword permutation, namespace module, five refused calls")
    ctx.count(states=len(sigs) + 1, transitions=calls, validated=calls)
    ctx.nontrivial_n(len(sigs) + 1)
    ctx.part("libraries", built=len(jobs) + len(rres), function_shapes=len(sigs), calls=calls, not_callable=len(unbuilt),
             not_callable_examples=sorted(unbuilt)[:10])
    ctx.sample({"function": "int fdef1(int a, int b = 2, double c = 1.5)", "call": "M.fdef1(1, b=5)", "expected": "RECV fdef1 a=1 b=5 c=<1.5>; returns 2147483647"})
    ctx.cov["rule"] = ("functions from the numpy-free atom rows at L1 and L2, language c and c++; for each call plan every positional/keyword split point, each number of "
                      "omitted trailing defaults, each position x wrong-type menu, extra / missing / unknown-keyword calls; executed in a child CPython 3.12 importing the "
                      "compiled extension; observations and RECV trace compared with the model")
    ctx.assumptions += ["CPython 3.12, PY_array_arg=list; numpy rows are outside the property's subset",
                        "the caller-side shapes (e.g. 'int *f()' -> list of one element) are taken from the emitter's documented statement tables and python.rst",
                        "functions that do not build are property C05's subject and are listed as uncovered"]


def replay(ctx, path):
    with open(path) as fp:
        p = json.load(fp)["payload"]
    print(p)
    ctx.count(states=1, transitions=1)
