"""C03 - the generated Python extension is call-equivalent to the wrapped library.

Libraries assembled from the numpy-free rows of the atom table (PY_array_arg=list), language
c and c++, are wrapped by the real shroud, built as CPython 3.12 extension modules and
imported by a child interpreter that calls every function: every split point between
positional and keyword arguments, every number of omitted trailing defaults, every position
with every value of a wrong-type menu, too many / too few / unknown-keyword calls.
Oracle: returned object(s) and the library's RECV trace equal the reference model; a
non-matching call raises TypeError/ValueError - never SystemError, a crash or a silent call.
"""
from __future__ import annotations

import json
import os
import shutil
import sysconfig

from .. import atoms as A
from .. import build, drv_f, drv_py, gen, isolate
from . import c01

PYINC = sysconfig.get_paths()["include"]
PY = "/venv/bin/python"


def case(args):
    """One library; a function that kills the interpreter is reported and the library re-run without it."""
    workdir, libname, funcs, lang, cap, quick = args
    allerrs, calls, n = [], 0, 0
    funcs = list(funcs)
    for attempt in range(12):
        r = case1((workdir + "_%d" % attempt, libname, funcs, lang, cap, quick))
        allerrs += r["errs"]
        calls += r["calls"]
        n = max(n, r["n"])
        dead = r.get("crashed_function")
        if r.get("retry") or not dead:
            r["errs"], r["calls"], r["n"] = allerrs, calls, n
            return r
        funcs = [f for f in funcs if f.name != dead]
    r["errs"], r["calls"], r["n"] = allerrs, calls, n
    return r


def case1(args):
    workdir, libname, funcs, lang, cap, quick = args
    funcs = [f for f in funcs if lang in f.langs() and drv_py.supported(f)]
    lib = A.Library(libname, funcs, lang)
    res = {"calls": 0, "errs": [], "n": len(lib.funcs)}
    if not lib.funcs:
        return res
    y = lib.yaml({"wrap_c": False, "wrap_fortran": False, "wrap_python": True, "wrap_lua": False, "PY_array_arg": "list"})
    os.makedirs(workdir)
    r, tree = gen.gen_tree(workdir, y, keep=True)
    if r.status != "ok":
        res["errs"].append(("generate", None, "%s %s: %s" % (r.status, r.exc, (r.msg or "")[:300])))
        res["retry"] = True
        shutil.rmtree(workdir, ignore_errors=True)
        return res
    out = os.path.join(workdir, "out")
    with open(os.path.join(out, lib.header_name()), "w") as fp:
        fp.write(lib.header())
    ext = "c" if lang == "c" else "cpp"
    with open(os.path.join(out, "subject." + ext), "w") as fp:
        fp.write(lib.source())
    module = libname.lower()
    plans = {f.name: drv_f.call_plans(f, cap) for f in lib.funcs}
    src, exp = drv_py.driver(lib, plans, module, quick)
    with open(os.path.join(out, "driver.py"), "w") as fp:
        fp.write(src)
    try:
        csrc = sorted(f for f in os.listdir(out) if f.endswith((".c", ".cpp")))
        objs = build.compile_c_family(out, csrc, lang, incs=[PYINC], extra=["-fPIC"])
        cc = ["g++"] if lang != "c" else ["gcc"]
        rc, so, se = build.sh(cc + ["-shared", "-o", module + ".so"] + objs, out)
        if rc != 0:
            raise build.BuildError("link", se[:800])
    except build.BuildError as e:
        res["errs"].append(("build", None, str(e)[:900]))
        res["retry"] = True
        shutil.rmtree(workdir, ignore_errors=True)
        return res
    env = dict(os.environ, VT_TRACE=os.path.join(out, "trace.txt"), PYTHONDONTWRITEBYTECODE="1")
    rc, so, se = build.sh([PY, "driver.py"], out, env=env, timeout=300)
    tr = open(os.path.join(out, "trace.txt"), errors="replace").read() if os.path.exists(os.path.join(out, "trace.txt")) else ""
    got_obs = [l for l in so.split("\n") if l.startswith("OBS ")]
    per = {}
    cur = None
    for l in tr.split("\n"):
        if l.startswith("CALL "):
            cur = tuple(l[5:].split(" ", 1))
            per[cur] = []
        elif l.startswith("RECV ") and cur is not None:
            per[cur].append(l)
    res["calls"] = len(exp)
    gmap = {}
    for l in got_obs:
        p = l.split()
        gmap[(p[1], p[2])] = l
    bad = {}
    crashed = None
    for fname, tag, line, recvs in exp:
        g = gmap.get((fname, tag))
        if g is None:
            if rc != 0 and crashed is None:
                crashed = (fname, tag, line)
            continue
        if g != line:
            bad.setdefault(fname, []).append("call %s: got %r, expected %r" % (tag, g, line))
        got_r = per.get((fname, tag), [])
        if "raises TypeError/ValueError" in line:
            if got_r:
                bad.setdefault(fname, []).append("call %s: the call is refused but the library was called: %r" % (tag, got_r))
        elif "raises" not in g and got_r != recvs:
            bad.setdefault(fname, []).append("call %s: library received %r, expected %r" % (tag, got_r, recvs))
    if crashed:
        cf = [f for f in lib.funcs if f.name == crashed[0]]
        res["crashed_function"] = crashed[0]
        res["errs"].append(("crash", cf[0].decl() if cf else crashed[0], "%s: the interpreter died in call %s (expected %r): exit %d %s" % (
            crashed[0], crashed[1], crashed[2], rc, (se or "")[-300:].replace("\n", " | "))))
    elif rc != 0:
        res["errs"].append(("run", None, "driver exit %d: %s" % (rc, (se or "")[-400:])))
    fmap = {f.name: f for f in lib.funcs}
    for fname, msgs in bad.items():
        f = fmap.get(fname)
        groups = {"ssize_t_clean": [], "mutates-argument": [], "mismatch": []}
        for m in msgs:
            if "PY_SSIZE_T_CLEAN" in m:
                groups["ssize_t_clean"].append(m)
            elif "ARG-MUTATED" in m and m.split("expected")[0].replace(" ARG-MUTATED", "").split("got ")[1].strip(" ,'\"") == m.split("expected ")[1].strip(" '\""):
                groups["mutates-argument"].append(m)
            else:
                groups["mismatch"].append(m)
        for kind, ms in groups.items():
            if ms:
                res["errs"].append((kind, f.decl() if f else fname, "[%s] %s: %d calls differ; first: %s   (decl: %s)" % (
                    lang, fname, len(ms), ms[0], f.decl() if f else "?")))
    shutil.rmtree(workdir, ignore_errors=True)
    return res


def class_funcs():
    """Methods act on the object they are called on: covered through the Cls atoms (two live objects) and
    the class scenario below."""
    return []


def run(ctx):
    quick = ctx.tier == "quick"
    W = ctx.workers
    wd = ctx.subdir("w")
    level = 1 if quick else 2
    libs = [("Pone%d" % i, part, None) for i, part in enumerate(c01.chunks(c01.l1_funcs(level), 12))]
    l2 = [f for f in c01.l2_funcs(quick) if drv_py.supported(f)]
    libs += [("Ptwo%d" % i, part, 4) for i, part in enumerate(c01.chunks(l2, 12))]
    jobs = []
    for name, funcs, cap in libs:
        for lang in ("cxx", "c"):
            if quick and lang == "c" and name.startswith("Ptwo"):
                continue
            jobs.append((os.path.join(wd, "j%d" % len(jobs)), name, funcs, lang, cap, quick))
    res = isolate.pmap(case, jobs, W)
    retry = []
    seen = set()
    for job, r in zip(jobs, res):
        if r.get("retry"):
            for f in job[2]:
                if job[3] in f.langs() and drv_py.supported(f):
                    k = (c01.atom_sig(f), job[3])
                    if k in seen:
                        continue
                    seen.add(k)
                    retry.append((os.path.join(wd, "r%d" % len(retry)), job[1] + "x", [f], job[3], job[4], quick))
    rres = isolate.pmap(case, retry, W) if retry else []
    calls = 0
    sigs = set()
    unbuilt = set()
    for job, r in list(zip(jobs, res)) + list(zip(retry, rres)):
        if r.get("retry") and len(job[2]) > 1:
            continue
        calls += r["calls"]
        for f in job[2]:
            if job[3] in f.langs() and drv_py.supported(f):
                sigs.add(c01.atom_sig(f))
        for kind, decl, msg in r["errs"]:
            ctx.outcome("py " + kind)
            if decl is None and len(job[2]) == 1:
                decl = job[2][0].decl()
            if kind in ("generate", "build"):
                # where property C05 records why this shape does not build it is listed as uncovered; otherwise a documented
                # entry point cannot be called from Python at all
                unbuilt.add("%s [%s]" % (decl, job[3]))
                fs = [f for f in job[2] if f.decl() == decl] or list(job[2])
                sig0 = c01.atom_sig(fs[0])
                if len(job[2]) == 1 and not c01.known_unbuildable(ctx, sig0, job[3], "py", 0):
                    ctx.violation("not-callable %s [%s]" % (sig0, job[3]), "%s cannot be called from Python at all (%s): %s" % (decl, job[3], msg[:700]),
                                  {"kind": "not-callable", "decl": decl, "lang": job[3]})
                continue
            sig = None
            for f in job[2]:
                if f.decl() == decl:
                    sig = c01.atom_sig(f)
            key = "%s %s [%s]" % (kind, sig or decl, job[3])
            if kind == "ssize_t_clean":
                key = "py: '#' format units without PY_SSIZE_T_CLEAN"
            elif kind == "mutates-argument" and "cstr_inout" in (sig or ""):
                key = "py: char * +intent(inout) writes into the caller's str object"
            elif kind == "mismatch" and "kwskip" in msg and msg.count("calls differ; first: call kwskip") and " 1 calls differ" in msg:
                key = "py: a later default given by keyword while an earlier one is omitted"
            elif kind == "crash" and "cls_ptr" in (sig or ""):
                key = "py: class pointer argument of a free function crashes the interpreter"
            ctx.violation(key, msg, {"kind": kind, "decl": decl, "lang": job[3]})
    ctx.count(states=len(sigs), transitions=calls, validated=calls)
    ctx.nontrivial_n(len(sigs))
    ctx.part("libraries", built=len(jobs) + len(rres), function_shapes=len(sigs), calls=calls, not_callable=len(unbuilt),
             not_callable_examples=sorted(unbuilt)[:10])
    ctx.sample({"function": "int fdef1(int a, int b = 2, double c = 1.5)", "call": "M.fdef1(1, b=5)", "expected": "RECV fdef1 a=1 b=5 c=<1.5>; returns 2147483647"})
    ctx.cov["rule"] = ("functions from the numpy-free atom rows at L1 and L2, language c and c++; for each call plan every positional/keyword split point, each number of "
                      "omitted trailing defaults, each position x wrong-type menu, extra / missing / unknown-keyword calls; executed in a child CPython 3.12 importing the "
                      "compiled extension; observations and RECV trace compared with the model")
    ctx.assumptions += ["CPython 3.12, PY_array_arg=list; numpy rows are outside the property's subset",
                        "the caller-side shapes (e.g. 'int *f()' -> list of one element) are taken from the emitter's documented statement tables and python.rst",
                        "functions that do not build are property C05's subject and are listed as uncovered"]


def replay(ctx, path):
    with open(path) as fp:
        p = json.load(fp)["payload"]
    print(p)
    ctx.count(states=1, transitions=1)
