"""C04 - Fortran bind(C) interfaces agree with the C functions and structs they bind to.

For every generated Fortran module (corpus under all configurations; libraries assembled
from the atom table for {c, c++} x {F_CFI off, on}) two compiler-derived descriptions are
compared, interface by interface: `gfortran -fc-prototypes` (the C prototype gfortran
believes each bind(C) interface / derived type has) and clang's JSON AST of the generated
headers, utility sources and the wrapped library's header (the prototypes that exist).
Both are reduced to ABI classes (family, size, by-value / pointer, pointee); arity, order,
every parameter, the result, struct field order / classes and the SH_TYPE_* tables must agree.
"""
from __future__ import annotations

import json
import os
import re
import shutil

from .. import atoms as A
from .. import build, corpus, gen, isolate
from . import c01, c05

GFINC = "/usr/lib/gcc/x86_64-linux-gnu/12/include"

SIZES = {"char": ("char", 1), "signed char": ("int", 1), "unsigned char": ("int", 1), "short": ("int", 2), "unsigned short": ("int", 2),
         "int": ("int", 4), "unsigned int": ("int", 4), "unsigned": ("int", 4), "long": ("int", 8), "unsigned long": ("int", 8),
         "long long": ("int", 8), "unsigned long long": ("int", 8), "float": ("real", 4), "double": ("real", 8), "long double": ("real", 16),
         "_Bool": ("bool", 1), "bool": ("bool", 1), "size_t": ("int", 8), "ptrdiff_t": ("int", 8), "int8_t": ("int", 1), "int16_t": ("int", 2), "int32_t": ("int", 4),
         "int64_t": ("int", 8), "uint8_t": ("int", 1), "uint16_t": ("int", 2), "uint32_t": ("int", 4), "uint64_t": ("int", 8),
         "int_least8_t": ("int", 1), "int_least16_t": ("int", 2), "int_least32_t": ("int", 4), "int_least64_t": ("int", 8),
         "int_fast8_t": ("int", 1), "int_fast16_t": ("int", 8), "int_fast32_t": ("int", 8), "int_fast64_t": ("int", 8), "intmax_t": ("int", 8), "intptr_t": ("int", 8),
         "float _Complex": ("complex", 8), "double _Complex": ("complex", 16), "_Complex float": ("complex", 8), "_Complex double": ("complex", 16),
         "__GFORTRAN_FLOAT_COMPLEX": ("complex", 8), "__GFORTRAN_DOUBLE_COMPLEX": ("complex", 16), "void": ("void", 0)}


def norm_struct(name):
    name = name.strip()
    name = re.sub(r"^(struct|union|class)\s+", "", name)
    name = name.lower()
    if name.startswith("s_"):
        name = name[2:]
    return name


def abi(tstr, records=None):
    """C type text -> ABI class tuple."""
    t = tstr.strip()
    t = re.sub(r"\b(const|volatile|restrict|__restrict)\b", "", t).strip()
    t = re.sub(r"\s+", " ", t)
    m = re.match(r"^(.*)\[(\d*)\]$", t)
    if m:
        return ("array", abi(m.group(1), records), m.group(2))
    if t.endswith("*"):
        inner = t[:-1].strip()
        if "(" in inner:
            return ("ptr", ("func", 0))
        return ("ptr", abi(inner, records))
    if "(*)" in t or t.endswith(")"):
        return ("ptr", ("func", 0))
    if t.startswith("enum "):
        return ("int", 4)
    if t in SIZES:
        return SIZES[t]
    if t.startswith(("struct ", "union ")) or True:
        n = norm_struct(t)
        if n in ("cfi_cdesc_t",):
            return ("struct", "cfi_cdesc_t")
        return ("struct", n)


LAYOUTS = {"f": {}, "c": {}}
CSHAPES = {}  # (struct name, field name) -> [extents] of a fixed-size array member, outermost first, as clang reports it
CALLBACKS = {}  # (C function name, parameter name) -> (result class, [parameter classes], type text) of a function-pointer parameter


def struct_compat(fname, cname, depth=0):
    """Two record types interoperate when they have the same name or the same layout (the Fortran side
    uses one capsule type for every class, the C side a struct per class with identical members)."""
    if fname == cname:
        return True
    fl, cl = LAYOUTS["f"].get(fname), LAYOUTS["c"].get(cname)
    if fl is None or cl is None or len(fl) != len(cl) or depth > 3:
        return False
    return all(compatible(a[1], b[1], depth + 1) for a, b in zip(fl, cl))


def compatible(f, c, depth=0):
    """Fortran-side class f (from gfortran's prototype) vs C-side class c."""
    if f == c:
        return True
    if f[0] == "struct" and c[0] == "struct":
        return struct_compat(f[1], c[1], depth)
    if f[0] == "ptr" and c[0] == "ptr":
        fi, ci = f[1], c[1]
        if fi[0] == "void" or ci[0] == "void":
            return True  # type(C_PTR) / assumed type / capsule address
        if fi[0] == "ptr" or ci[0] == "ptr":
            return compatible(fi, ci) if (fi[0] == "ptr" and ci[0] == "ptr") else False
        if fi[0] == "struct" and ci[0] == "struct":
            return struct_compat(fi[1], ci[1], depth)
        if fi[0] in ("char",) and ci[0] in ("char", "int") and ci[1] == 1:
            return True
        if fi[0] == "func" or ci[0] == "func":
            return True
        return fi[0] == ci[0] and fi[1] == ci[1] or (fi[0] in ("int", "char") and ci[0] in ("int", "char") and fi[1] == ci[1])
    if f[0] == "ptr" and c[0] == "array":
        return compatible(f[1], c[1])
    if f[0] in ("int", "char") and c[0] in ("int", "char"):
        return f[1] == c[1]
    if f[0] == "array" and c[0] == "array":
        # a[2][3] in C and the 6 contiguous elements gfortran prints for a(3,2) are one layout
        def flat(t):
            n = 1
            while t[0] == "array":
                n *= int(t[2]) if str(t[2]).isdigit() else 0
                t = t[1]
            return t, n
        (fb, fn), (cb, cn) = flat(f), flat(c)
        return fn == cn and fn > 0 and compatible(fb, cb) or (f[2] == c[2] and compatible(f[1], c[1]))
    return False


def split_params(s):
    out, depth, cur = [], 0, ""
    for ch in s:
        if ch == "," and depth == 0:
            out.append(cur)
            cur = ""
        else:
            depth += ch in "(["
            depth -= ch in ")]"
            cur += ch
    if cur.strip():
        out.append(cur)
    return [p.strip() for p in out]


def gfortran_view(path, cwd, incs=()):
    """-> ({c name: [(ret class, [param classes], text)]}, {struct: [(field, class)]}, error)"""
    rc, so, se = build.sh(["gfortran", "-cpp", "-ffree-form", "-w", "-fc-prototypes", "-fsyntax-only"] + ["-I" + i for i in incs] + [path], cwd)
    unknown = "Cannot convert 'UNKNOWN' to interoperable type"
    if rc != 0:
        # gfortran cannot print the prototype of a procedure whose dummy procedure is a subroutine (it says so in place of the
        # parameter list and goes on); that is a limit of the printer, not an error in the module: everything else is used
        errs = [l for l in se.split("\n") if l.startswith("Error:")]
        if not errs or any("UNKNOWN" not in l for l in errs):
            return None, None, se[:300]
    so = "\n".join(re.sub(r"^.*/\* %s \*/" % re.escape(unknown), "", ln) for ln in so.split("\n"))
    protos = {}
    structs = {}
    text = re.sub(r"/\*.*?\*/", "", so, flags=re.S)  # gfortran annotates some members with a comment
    for m in re.finditer(r"typedef struct (\w+) \{(.*?)\} \w+;", text, re.S):
        fields = []
        for ln in m.group(2).split(";"):
            ln = ln.strip()
            if not ln:
                continue
            mm = re.match(r"^(.*?)(\w+)(\[\d+\])?$", ln)
            fields.append((mm.group(2), abi(mm.group(1).strip() + (mm.group(3) or ""))))
        structs[norm_struct(m.group(1))] = fields
    for ln in text.split("\n"):
        m = re.match(r"^([\w \*]+?)\s*\**\s*(\w+) \((.*)\);$", ln)
        if not m or ln.startswith(("typedef", "#")):
            continue
        m = re.match(r"^(.*?)(\w+) \((.*)\);$", ln)
        ret, name, params = m.group(1).strip(), m.group(2), m.group(3)
        plist = []
        for p in split_params(params):
            if p in ("void", ""):
                continue
            if "(*" in p or p.endswith(")"):
                plist.append((("ptr", ("func", 0)), ""))
                continue
            isarr = False
            while p.endswith("]"):
                p = p[: p.rindex("[")].strip()
                isarr = True
            p = re.sub(r"/\*.*?\*/", "", p).strip()
            mm = re.match(r"^(.*?)(\w+)$", p)
            cls = abi(mm.group(1)) if mm and mm.group(1).strip() else abi(p)
            pname = mm.group(2).lower() if mm else ""
            plist.append((("ptr", cls) if isarr else cls, pname))
        protos.setdefault(name, []).append((abi(ret), plist, ln.strip()))
    return protos, structs, None


def clang_view(files, cwd, incs=()):
    """-> ({name: (ret class, [param classes], text)}, {struct: fields})"""
    funcs, structs = {}, {}
    for f, lang in files:
        cmd = ["clang++", "-std=c++11", "-x", "c++"] if lang == "cxx" else ["clang", "-std=c99", "-x", "c"]
        rc, so, se = build.sh(cmd + ["-w", "-Xclang", "-ast-dump=json", "-fsyntax-only", "-I.", "-I" + GFINC] + ["-I" + i for i in incs] + [f], cwd)
        if not so.strip():
            continue
        try:
            d = json.loads(so)
        except ValueError:
            continue

        def walk(node, in_c):
            k = node.get("kind")
            if k == "LinkageSpecDecl":
                in_c2 = node.get("language") == "C"
                for ch in node.get("inner", []):
                    walk(ch, in_c2)
                return
            if k == "NamespaceDecl":
                return
            if k == "FunctionDecl" and (in_c or lang == "c"):
                qt = node["type"].get("desugaredQualType") or node["type"]["qualType"]
                ret = qt.split("(")[0].strip()
                ps = []
                for ch in node.get("inner", []):
                    if ch.get("kind") == "ParmVarDecl":
                        ty = ch["type"]
                        ps.append(abi(ty.get("desugaredQualType") or ty["qualType"]))
                        fm = re.match(r"^(.*?)\(\*\)\((.*)\)$", ty.get("desugaredQualType") or ty["qualType"])
                        if fm and ch.get("name"):
                            # a callback: result and parameter classes of the pointed-to function type
                            fparams = [abi(x) for x in split_params(fm.group(2)) if x not in ("void", "")]
                            CALLBACKS.setdefault((node["name"], ch["name"].lower()), (abi(fm.group(1).strip()), fparams, ty["qualType"]))
                funcs.setdefault(node["name"], (abi(ret), ps, "%s %s" % (node["name"], qt)))
            elif k in ("RecordDecl", "CXXRecordDecl") and node.get("completeDefinition") and node.get("name"):
                fields = []
                for ch in node.get("inner", []):
                    if ch.get("kind") == "FieldDecl":
                        ty = ch["type"]
                        ts = ty.get("desugaredQualType") or ty["qualType"]
                        if "unnamed" in ts or "anonymous" in ts:
                            cls = ("ptr", ("void", 0))  # union of pointers in the array descriptor
                        else:
                            cls = abi(ts)
                        fields.append((ch.get("name"), cls))
                        ext = re.findall(r"\[(\d+)\]", ts)
                        if ext and "(" not in ts:
                            CSHAPES[(norm_struct(node["name"]), (ch.get("name") or "").lower())] = [int(x) for x in ext]
                    elif ch.get("kind") in ("RecordDecl",) and not ch.get("name"):
                        pass
                structs[norm_struct(node["name"])] = fields
            elif k == "TranslationUnitDecl":
                for ch in node.get("inner", []):
                    walk(ch, in_c)

        walk(d, lang == "c")
    return funcs, structs


def descriptor_args(text):
    """{C name: set of dummy names passed by descriptor} read from the interface bodies
    (assumed length character, assumed shape / rank, allocatable, pointer)."""
    res = {}
    joined = []
    pend = ""
    for ln in text.split("\n"):
        t = ln.rstrip()
        if t.endswith("&"):
            pend += t[:-1] + " "
        else:
            joined.append(pend + t)
            pend = ""
    cur = None
    for ln in joined:
        m = re.search(r'bind\(C,\s*name="(\w+)"\)', ln, re.I)
        if m and re.match(r"\s*(pure\s+|elemental\s+)?(function|subroutine)\b", ln, re.I):
            cur = m.group(1)
            res.setdefault(cur, set())
            continue
        if cur and re.match(r"\s*end\s+(function|subroutine)", ln, re.I):
            cur = None
            continue
        if cur and "::" in ln:
            left, right = ln.split("::", 1)
            low = left.lower()
            for nm in re.findall(r"(\w+)\s*(\([^)]*\))?", right):
                name, dims = nm
                if not name:
                    continue
                desc = ("len=*" in low.replace(" ", "") or "allocatable" in low or ", pointer" in low or
                        ":" in dims or ".." in dims or "dimension(:" in low.replace(" ", "") or "dimension(.." in low.replace(" ", ""))
                if desc and "value" not in low:
                    res[cur].add(name.lower())
    return res


def cptr_by_reference(text):
    """{procedure (C binding name, or the Fortran name of an abstract interface): set of type(C_PTR) dummies declared WITHOUT value}.
    gfortran's prototype printer shows 'void *' for a type(C_PTR) dummy with and without VALUE; the text decides."""
    res = {}
    joined = []
    pend = ""
    for ln in text.split("\n"):
        t = ln.rstrip()
        if t.endswith("&"):
            pend += t[:-1] + " "
        else:
            joined.append(pend + t)
            pend = ""
    cur = None
    for ln in joined:
        m0 = re.match(r"\s*(?:pure\s+|elemental\s+)*(?:function|subroutine)\s+(\w+)\s*\(.*\bbind\(C", ln, re.I)
        if m0:
            m = re.search(r'bind\(C,\s*name="(\w+)"\)', ln, re.I)
            cur = m.group(1) if m else m0.group(1).lower()
            res.setdefault(cur, set())
            continue
        if cur and re.match(r"\s*end\s+(function|subroutine)", ln, re.I):
            cur = None
            continue
        if cur and "::" in ln:
            left, right = ln.split("::", 1)
            low = left.lower().replace(" ", "")
            if low.startswith("type(c_ptr)") and ",value" not in low:
                for nm in re.findall(r"(\w+)\s*(\([^)]*\))?", right):
                    if nm[0] and not nm[1]:
                        res[cur].add(nm[0].lower())
    return res


def ptr_depth(c):
    n = 0
    while c and c[0] == "ptr":
        n += 1
        c = c[1]
    return n


def cfi_attribute_problems(out, label):
    """A C wrapper that allocates (CFI_allocate) or re-points (CFI_setpointer) a descriptor needs an allocatable / pointer dummy
    on the Fortran side; a dummy declared allocatable / pointer must not be bound to a wrapper that treats it as plain data only if ...
    Only the first direction is a hard interoperability rule and is checked."""
    probs = []
    need = {}  # C function -> {arg name: 'allocatable'|'pointer'}
    for fn in sorted(os.listdir(out)):
        if not (fn.startswith("wrap") and fn.endswith((".c", ".cpp"))):
            continue
        cur = None
        for ln in open(os.path.join(out, fn), errors="replace").read().split("\n"):
            m = re.match(r"^[A-Za-z_][\w \*]*?\b(\w+)\((.*)", ln)
            if m and not ln.startswith(("static", "typedef", "return", "extern")):
                cur = m.group(1)
            for call, attr in (("CFI_allocate", "allocatable"), ("CFI_setpointer", "pointer")):
                mm = re.search(call + r"\(\s*(\w+)", ln)
                if mm and cur:
                    need.setdefault(cur, {})[mm.group(1)] = attr
    if not need:
        return probs
    for fn in sorted(os.listdir(out)):
        if not fn.endswith(".f"):
            continue
        text = open(os.path.join(out, fn), errors="replace").read()
        joined, pend = [], ""
        for ln in text.split("\n"):
            t = ln.rstrip()
            if t.endswith("&"):
                pend += t[:-1] + " "
            else:
                joined.append(pend + t)
                pend = ""
        cur = None
        decls = {}
        for ln in joined:
            m = re.search(r'bind\(C,\s*name="(\w+)"\)', ln, re.I)
            if m and re.match(r"\s*(pure\s+|elemental\s+)?(function|subroutine)\b", ln, re.I):
                cur = m.group(1)
                decls = {}
                continue
            if cur and re.match(r"\s*end\s+(function|subroutine)", ln, re.I):
                for arg, attr in need.get(cur, {}).items():
                    cand = [arg.lower(), re.sub(r"^shcfi_", "", arg.lower())]
                    left = next((decls[c] for c in cand if c in decls), None)
                    if left is not None and attr not in left:
                        probs.append(("cfi-attribute %s" % cur, "%s: %s calls %s on its argument %s but the Fortran interface declares the dummy as '%s' (not %s)" % (
                            label, cur, "CFI_allocate" if attr == "allocatable" else "CFI_setpointer", arg, left.strip(), attr)))
                cur = None
                continue
            if cur and "::" in ln:
                left, right = ln.split("::", 1)
                for name in re.findall(r"(\w+)", right):
                    decls[name.lower()] = left.lower()
    return probs


def _eval_table(defs):
    vals = {}
    for _ in range(3):
        for k, e in defs.items():
            try:
                vals[k] = int(eval(e, {"__builtins__": {}}, dict(vals)))
            except Exception:  # noqa - depends on a name resolved in a later pass
                pass
    return vals


def sh_types(out):
    """SH_TYPE_* values on the C side (#define) and the Fortran side (parameter)."""
    cdefs, fdefs = {}, {}
    for f in os.listdir(out):
        p = os.path.join(out, f)
        if f.endswith((".h", ".hpp")):
            for m in re.finditer(r"#define (SH_TYPE_\w+)\s+([\w +]+?)\s*$", open(p).read(), re.M):
                cdefs[m.group(1)] = m.group(2)
        if f.endswith(".f"):
            for m in re.finditer(r"(SH_TYPE_\w+)\s*=\s*([\w +]+?)\s*(,|&|$)", open(p).read(), re.M):
                fdefs[m.group(1).upper()] = m.group(2).upper()
    return _eval_table(cdefs), _eval_table(fdefs)


def compare_dir(out, lang, user_headers, user_incs, label):
    """All checks for one output directory. Returns (problems, counts)."""
    probs = []
    for junk in ("helpers.c", "helpers.f", "statements"):
        if os.path.exists(os.path.join(out, junk)):
            os.unlink(os.path.join(out, junk))
    fmods = build.fortran_order(sorted(f for f in os.listdir(out) if f.endswith(".f")), out)
    if not fmods:
        return probs, {"interfaces": 0, "structs": 0}
    # compile modules first so that later ones can USE earlier ones
    for f in fmods:
        build.sh(["gfortran", "-cpp", "-ffree-form", "-w", "-fsyntax-only"] + ["-I" + i for i in user_incs] + [f], out)
    files = [(f, "c") for f in sorted(os.listdir(out)) if f.endswith(".h") and not f.startswith(("py", "lua"))]
    files += [(f, lang) for f in sorted(os.listdir(out)) if f.startswith("util") and f.endswith((".c", ".cpp"))]
    files += [(h, lang) for h in user_headers]
    probs += cfi_attribute_problems(out, label)
    CALLBACKS.clear()
    CSHAPES.clear()
    cfuncs, cstructs = clang_view(files, out, user_incs)
    LAYOUTS["c"] = cstructs
    LAYOUTS["f"] = {}
    views = {}
    for f in fmods:
        views[f] = gfortran_view(f, out, user_incs)
        if views[f][1]:
            LAYOUTS["f"].update(views[f][1])
    nif = nst = 0
    for f in fmods:
        protos, fstructs, err = views[f]
        text = open(os.path.join(out, f)).read()
        descr = descriptor_args(text)
        byref = cptr_by_reference(text)
        abstract = set()
        for blk in re.findall(r"abstract interface(.*?)end interface", text, re.S | re.I):
            abstract |= set(m.lower() for m in re.findall(r"(?:function|subroutine)\s+(\w+)", blk, re.I))
        if protos is None:
            if "Cannot open module file" in (err or "") or "mpi" in (err or "").lower():
                continue
            if True:
                continue  # a module gfortran rejects is property C05's subject (it is reported there); text-only corpus configurations are not compilable Fortran (splicer placeholders); compile errors are C05's subject
            probs.append(("module", "%s: gfortran cannot analyse %s: %s" % (label, f, err)))
            continue
        for name, variants in sorted(protos.items()):
            if name.lower() in abstract:
                # the interface of a callback argument, not a C function: it must describe the function type the C side calls.
                # Shroud names it <function>_<argument>; the C functions with a function-pointer parameter of that name decide
                cands = [(fn_, v) for (fn_, pn_), v in CALLBACKS.items()
                         if name.lower().endswith("_" + pn_) and (fn_.lower().replace("_", "").endswith(name.lower()[: -len(pn_) - 1].replace("_", ""))
                                                                  or re.search(r"(^|_)%s_\d+$" % re.escape(name.lower()[: -len(pn_) - 1]), fn_.lower()))]  # overloads: <name>_<n>
                for fret, fparams, ftext in variants:
                    for fn_, (cret, cparams, ctext) in cands:
                        nif += 1
                        bad = None
                        if len(fparams) != len(cparams):
                            bad = "the abstract interface has %d arguments, the function type has %d" % (len(fparams), len(cparams))
                        else:
                            for i, ((fp, pname), cp) in enumerate(zip(fparams, cparams)):
                                if not compatible(fp, cp):
                                    bad = "argument %d: the Fortran procedure takes %s, C passes %s" % (i + 1, fp, cp)
                                    break
                                if pname in byref.get(name.lower(), ()) and ptr_depth(cp) == 1:
                                    bad = "argument %d (%s): declared type(C_PTR) without VALUE (the address of a pointer), C passes the pointer itself: %s" % (i + 1, pname, cp)
                                    break
                            if bad is None and not (compatible(fret, cret) or (fret[0] == "void" and cret[0] == "void") or (fret[0] == "ptr" and cret[0] == "ptr")):
                                bad = "result: the Fortran procedure returns %s, C expects %s" % (fret, cret)
                        if bad:
                            probs.append(("callback %s" % name, "%s: abstract interface %s (callback of %s): %s   [Fortran: %s | C: %s]" % (label, name, fn_, bad, ftext, ctext)))
                continue
            for fret, fparams, ftext in variants:
                nif += 1
                if name not in cfuncs:
                    if not user_headers and not re.match(r"^[A-Z]{3}_|^[A-Z]+_", name):
                        continue  # binds to the user's own C function; its header is not available here
                    probs.append(("undefined %s" % name, "%s: %s binds to %s, which no generated or wrapped-library C declaration defines   [Fortran view: %s]" % (label, f, name, ftext)))
                    continue
                cret, cparams, ctext = cfuncs[name]
                if len(fparams) != len(cparams):
                    probs.append(("arity %s" % name, "%s: %s: interface has %d arguments, C function has %d   [Fortran: %s | C: %s]" % (
                        label, name, len(fparams), len(cparams), ftext, ctext)))
                    continue
                bad = None
                for i, ((fp, pname), cp) in enumerate(zip(fparams, cparams)):
                    if pname in descr.get(name, ()):
                        # passed by descriptor (Fortran 2018 CFI); gfortran's prototype printer shows the data pointer
                        fp = ("ptr", ("struct", "cfi_cdesc_t"))
                    if not compatible(fp, cp):
                        bad = "argument %d: Fortran passes %s, C expects %s" % (i + 1, fp, cp)
                        break
                    if pname in byref.get(name, ()) and ptr_depth(cp) == 1:
                        bad = "argument %d (%s): declared type(C_PTR) without VALUE (Fortran passes the address of the pointer), C expects the pointer itself: %s" % (i + 1, pname, cp)
                        break
                if bad is None and not (compatible(fret, cret) or (fret[0] == "void" and cret[0] == "void")):
                    if not (fret[0] == "ptr" and cret[0] == "ptr"):
                        bad = "result: Fortran expects %s, C returns %s" % (fret, cret)
                if bad:
                    probs.append(("mismatch %s" % name, "%s: %s: %s   [Fortran: %s | C: %s]" % (label, name, bad, ftext, ctext)))
        for sname, ffields in fstructs.items():
            if sname not in cstructs:
                cand = [k for k in cstructs if k.replace("_", "") == sname.replace("_", "")]
                if not cand:
                    continue  # a user struct whose header is not available
                sname_c = cand[0]
            else:
                sname_c = sname
            nst += 1
            cf = cstructs[sname_c]
            if len(cf) != len(ffields):
                probs.append(("struct %s" % sname, "%s: derived type %s has %d components, C struct has %d: %s vs %s" % (label, sname, len(ffields), len(cf), ffields, cf)))
                continue
            for (fn, fc), (cn, cc) in zip(ffields, cf):
                if not compatible(fc, cc) and not (fc[0] == "struct" and cc[0] == "struct" and fc[1] == cc[1]):
                    probs.append(("struct %s.%s" % (sname, fn), "%s: component %s of %s is %s in Fortran and %s (%s) in C" % (label, fn, sname, fc, cc, cn)))
                    break
    # the shape of a fixed-size array member (gfortran's C view flattens it): Fortran extents are the C extents in reverse order
    for f in fmods:
        ftext = re.sub(r"&\s*\n\s*&?", " ", open(os.path.join(out, f), errors="replace").read())
        for tm in re.finditer(r"(?im)^\s*type\s*,\s*bind\(C\)\s*::\s*(\w+)\s*$(.*?)^\s*end\s+type", ftext, re.S):
            sname = norm_struct(tm.group(1))
            cands = [k for k in set(k0 for k0, _ in CSHAPES) if k == sname or k.replace("_", "") == sname.replace("_", "")]
            for cm in re.finditer(r"(?im)^[^!\n]*::\s*(\w+)\s*\(([^)]*)\)\s*$", tm.group(2)):
                fdims = [x.strip() for x in cm.group(2).split(",")]
                for cs in cands:
                    cdims = CSHAPES.get((cs, cm.group(1).lower()))
                    if cdims is None or not all(x.isdigit() for x in fdims):
                        continue
                    if [int(x) for x in reversed(fdims)] != cdims:
                        probs.append(("struct %s.%s shape" % (sname, cm.group(1).lower()), "%s: member %s of %s has the C extents %s and the Fortran shape (%s): Fortran extents are the C extents in reverse order" % (
                            label, cm.group(1), sname, "".join("[%d]" % x for x in cdims), ",".join(fdims))))
    cv, fv = sh_types(out)
    for k in sorted(set(cv) & set(fv)):
        if cv[k] != fv[k]:
            probs.append(("constant %s" % k, "%s: %s is %d in the C header and %d in the Fortran module" % (label, k, cv[k], fv[k])))
    return probs, {"interfaces": nif, "structs": nst, "constants": len(set(cv) & set(fv))}


def corpus_case(args):
    workdir, repo, cfg = args
    out = os.path.join(workdir, "out")
    r = corpus.generate(repo, cfg, out)
    if r.status != "ok":
        shutil.rmtree(workdir, ignore_errors=True)
        return cfg[0], [], {"interfaces": 0, "structs": 0}
    name, yaml_file, cmdline = cfg
    lang = None
    if "--language" in cmdline:
        lang = "c" if cmdline[cmdline.index("--language") + 1] == "c" else "cxx"
    if lang is None:
        m = re.search(r"^language:\s*(\S+)", open(os.path.join(repo, "regression", "input", yaml_file)).read(), re.M)
        lang = "c" if (m and m.group(1).strip() == "c") else "cxx"
    info = c05.run_info(repo, name)
    hdrs, incs = [], []
    if info:
        incs = info["incs"]
        for d in incs:
            for f in sorted(os.listdir(d)):
                if f.endswith((".h", ".hpp")) or (lang == "c" and f.endswith(".c") and not f.startswith(("main", "test"))):
                    hdrs.append(os.path.join(d, f))
    probs, counts = compare_dir(out, lang, hdrs, incs, "corpus %s" % name)
    shutil.rmtree(workdir, ignore_errors=True)
    return name, probs, counts


def g_case(args):
    workdir, libname, funcs, lang, cfi = args
    lib = A.Library(libname, funcs, lang)
    if not lib.funcs:
        return libname, [], {"interfaces": 0, "structs": 0}, False
    os.makedirs(workdir)
    r, tree = gen.gen_tree(workdir, lib.yaml({"wrap_fortran": True, "wrap_c": True, "F_CFI": bool(cfi)}), keep=True)
    if r.status != "ok":
        shutil.rmtree(workdir, ignore_errors=True)
        return libname, [], {"interfaces": 0, "structs": 0}, True
    out = os.path.join(workdir, "out")
    with open(os.path.join(out, lib.header_name()), "w") as fp:
        fp.write(lib.header())
    probs, counts = compare_dir(out, lang, [lib.header_name()], [], "%s [%s cfi=%d]" % (libname, lang, cfi))
    fmap = {}
    for f in lib.funcs:
        fmap[f.name.lower()] = f
    shutil.rmtree(workdir, ignore_errors=True)
    return libname, probs, counts, False


RENAMED = {"C_memory_dtor_function": "OWN_release_it", "C_array_type": "OWN_arr_t", "C_capsule_data_type": "OWN_cap_t",
           "F_array_type": "own_arr_t", "F_capsule_type": "own_cap_t", "F_capsule_data_type": "own_capdata_t",
           "F_capsule_final_function": "own_final", "F_capsule_delete_function": "own_delete"}


def raw_case(args):
    """The ownership library of C06 (classes, owned / borrowed results, free_pattern, strings, vectors) under default and renamed helper names."""
    workdir, label, renamed, cfi = args
    import yaml as _y

    from . import c06

    y = _y.safe_load(c06.YAML)
    y["options"]["F_CFI"] = bool(cfi)
    if cfi:
        # std::vector under F_CFI does not generate (recorded under C05)
        y["declarations"] = [d for d in y["declarations"] if "vector" not in d["decl"]]
    if renamed:
        y["format"] = dict(RENAMED)
    os.makedirs(workdir)
    r, tree = gen.gen_tree(workdir, y, keep=True)
    if r.status != "ok":
        shutil.rmtree(workdir, ignore_errors=True)
        return label, [], {"interfaces": 0, "structs": 0}  # whether it generates at all is property C05's subject
    out = os.path.join(workdir, "out")
    with open(os.path.join(out, "own.hpp"), "w") as fp:
        fp.write(c06.HPP)
    probs, counts = compare_dir(out, "cxx", ["own.hpp"], [], label)
    shutil.rmtree(workdir, ignore_errors=True)
    return label, probs, counts


def stmt_libs():
    """User statement blocks that change the C wrapper's result type (cstatements.rst: return_type "when it is different than
    the functions return type"): original result type x new type, for functions and for subroutines, C and C++."""
    out = []
    for lang in ("cxx", "c"):
        decls, hdr = [], []
        k = 0
        for orig in ("void", "int", "double", "long"):
            for new in ("long", "double", "int"):
                if new == orig:
                    continue
                k += 1
                name = "rt%d" % k
                hdr.append("%s %s(int n);" % (orig, name))
                ret = "return (%s) n;" % new if orig == "void" else "return (%s) {C_result};" % new
                decls.append({"decl": "%s %s(int n)" % (orig, name), "fstatements": {"c": {"return_type": new, "ret": [ret]}}})
        # the same through the buffer variant of a function with a string argument
        hdr.append("int rtbuf(const char *s);")
        decls.append({"decl": "int rtbuf(const char *s)", "fstatements": {"c": {"return_type": "double", "ret": ["return (double) {C_result};"]},
                                                                           "c_buf": {"return_type": "double", "ret": ["return (double) {C_result};"]}}})
        hname = "rtype.hpp" if lang == "cxx" else "rtype.h"
        y = {"library": "rtype", "cxx_header": hname, "options": {"wrap_python": False, "wrap_lua": False}, "declarations": decls}
        if lang == "c":
            y["language"] = "c"
        out.append(("statement blocks with return_type (%s)" % lang, lang, y, hname, "\n".join(hdr) + "\n"))
    # functions that need the shared helper functions (copy string / copy array) only inside a namespace with a module of its own
    nsy = {"library": "nshelp", "cxx_header": "nshelp.hpp", "options": {"wrap_python": False, "wrap_lua": False},
           "declarations": [{"decl": "int plain(int n)"},
                            {"decl": "namespace inner", "declarations": [{"decl": "const std::string getName()"}, {"decl": "void fill(std::vector<int> &v +intent(out))"},
                                                                       {"decl": "int *mk(int n) +dimension(n)+deref(allocatable)"},
                                                                       {"decl": "namespace deep", "declarations": [{"decl": "std::vector<double> values()"}]}]}]}
    nshdr = ("#include <string>\n#include <vector>\nint plain(int n);\nnamespace inner { const std::string getName(); void fill(std::vector<int> &v); int *mk(int n);\n"
             "namespace deep { std::vector<double> values(); } }\n")
    out.append(("helpers used only inside namespaces", "cxx", nsy, "nshelp.hpp", nshdr))
    # parameters written with array syntax are pointers in C
    for lang in ("c", "cxx"):
        hname = "arrp.h" if lang == "c" else "arrp.hpp"
        ay = {"library": "arrp", "cxx_header": hname, "options": {"wrap_python": False, "wrap_lua": False},
              "declarations": [{"decl": "int sum3(int arg[3])"}, {"decl": "double trace(double m[2][2])"}]}
        if lang == "c":
            ay["language"] = "c"
        out.append(("parameters in array syntax (%s)" % lang, lang, ay, hname, "int sum3(int arg[3]);\ndouble trace(double m[2][2]);\n"))
    # members of an interoperable struct: every native kind, bool, char, fixed arrays (one and two extents), pointers, arrays of pointers
    recd = "struct Rec { int n; bool on; char code; double *rows[3]; float w[2][3]; int *grid[2][3]; double cube[2][3][4]; long big; char name[8]; short s; int *p; unsigned int u; long long ll; size_t z; double d; bool flags[2]; };"
    for lang in ("c", "cxx"):
        hname = "rec.h" if lang == "c" else "rec.hpp"
        ry = {"library": "smem", "cxx_header": hname, "options": {"wrap_python": False, "wrap_lua": False},
              "declarations": [{"decl": recd}, {"decl": "int use(Rec *r)"}, {"decl": "Rec make(int n)"}]}
        if lang == "c":
            ry["language"] = "c"
        rhdr = "#include <stddef.h>\n" + ("#include <stdbool.h>\n" if lang == "c" else "") + recd + "\ntypedef struct Rec Rec;\nint use(Rec *r);\nRec make(int n);\n"
        out.append(("struct member types (%s)" % lang, lang, ry, hname, rhdr))
    # callbacks: the abstract interface of a function-pointer argument describes the pointed-to function type - its own result
    # type (every native kind, none of them the enclosing function's) and its own parameters
    rtypes = ["void", "int", "long", "double", "float", "bool", "short", "long long", "size_t", "unsigned int", "int *", "void *", "const double *"]
    for lang in ("c", "cxx"):
        hname = "cbk.h" if lang == "c" else "cbk.hpp"
        for i, rt in enumerate(rtypes):
            # one library per result type: a module gfortran rejects for one of them must not hide the others
            decls, hdr = [], ["#include <stddef.h>"] + (["#include <stdbool.h>"] if lang == "c" else [])
            # the function that takes the callback returns another type, one whose kind the callback's own parameters bring along
            outer = "double" if rt in ("int", "void") else "int"
            d = "%s take%d(%s (*fn)(int k, double x), int n)" % (outer, i, rt)
            decls.append({"decl": d})
            hdr.append(d + ";")
            vouter = rtypes[(i + 5) % len(rtypes)]
            d2 = "%s visit%d(%s (*each)(%s *v, long n))" % ("int" if vouter == "void" or "*" in vouter else vouter, i, rt, "double" if rt == "void" or "*" in rt else rt)
            decls.append({"decl": d2.replace("*v,", "*v +rank(1),")})
            hdr.append(d2 + ";")
            cy = {"library": "cbk", "cxx_header": hname, "options": {"wrap_python": False, "wrap_lua": False}, "declarations": decls}
            if lang == "c":
                cy["language"] = "c"
            out.append(("callback returning %s (%s)" % (rt, lang), lang, cy, hname, "\n".join(hdr) + "\n"))
        # what a callback is handed: user-data pointers, pointers to native values, values of every width, next to the same kinds
        # as parameters of the function itself
        pdecls = ["int apply_ctx(int n, int (*fn)(int i, void *ctx), void *ctx)", "void each_ptr(void (*fn)(double *x, const int *k, void *p), int n)",
                  "long widths(long (*fn)(short a, long long b, float c, bool d, size_t e), int n)", "void two_ctx(void (*first)(void *a), void (*second)(void *a, void *b), void *data)"]
        cy = {"library": "cbp", "cxx_header": hname, "options": {"wrap_python": False, "wrap_lua": False}, "declarations": [{"decl": d} for d in pdecls]}
        if lang == "c":
            cy["language"] = "c"
        out.append(("callback parameter kinds (%s)" % lang, lang, cy, hname, "#include <stddef.h>\n" + ("#include <stdbool.h>\n" if lang == "c" else "") + ";\n".join(pdecls) + ";\n"))
    # getters and setters of class data members: value members by value, pointer members as pointers
    mhdr = "class Foo { public: Foo() {} int count; double scale; double *dv; int *ids; long big; bool flag; };\n"
    my = {"library": "mem", "cxx_header": "mem.hpp", "options": {"wrap_python": False, "wrap_lua": False}, "declarations": [
        {"decl": "class Foo", "declarations": [{"decl": "Foo()"}, {"decl": "int count"}, {"decl": "double scale"}, {"decl": "double *dv"},
                                               {"decl": "int *ids +dimension(count)"}, {"decl": "long big +readonly"}, {"decl": "bool flag"}]}]}
    out.append(("getters and setters of data members", "cxx", my, "mem.hpp", mhdr))
    # two overloads that each take a callback under the same argument name, with different function types
    oy = {"library": "ovc", "cxx_header": "ovc.hpp", "options": {"wrap_python": False, "wrap_lua": False}, "declarations": [
        {"decl": "void apply(int n, int (*fn)(int))"}, {"decl": "void apply(double x, double (*fn)(double))"}]}
    out.append(("overloads with callbacks of one name", "cxx", oy, "ovc.hpp", "void apply(int n, int (*fn)(int));\nvoid apply(double x, double (*fn)(double));\n"))
    return out


def stmt_case(args):
    workdir, label, lang, y, hname, hdr = args
    os.makedirs(workdir)
    r, tree = gen.gen_tree(workdir, y, keep=True)
    if r.status != "ok":
        shutil.rmtree(workdir, ignore_errors=True)
        return label, [("generation", "%s: generation fails: %s %s" % (label, r.exc, (r.msg or "")[:200]))], {"interfaces": 0, "structs": 0}
    out = os.path.join(workdir, "out")
    with open(os.path.join(out, hname), "w") as fp:
        fp.write(hdr)
    probs, counts = compare_dir(out, lang, [hname], [], label)
    shutil.rmtree(workdir, ignore_errors=True)
    return label, probs, counts


def run(ctx):
    quick = ctx.tier == "quick"
    W = ctx.workers
    wd = ctx.subdir("w")
    cfgs = corpus.configs(ctx.repo)
    cres = isolate.pmap(corpus_case, [(os.path.join(wd, "c%d" % i), ctx.repo, cfg) for i, cfg in enumerate(cfgs)], W)
    nif = nst = ncon = 0
    for name, probs, counts in cres:
        nif += counts["interfaces"]
        nst += counts["structs"]
        ncon += counts.get("constants", 0)
        ctx.outcome("corpus %s" % ("ok" if not probs else "bad"))
        for key, msg in probs:
            ctx.violation("corpus %s %s" % (name, key), msg, {"kind": "corpus", "config": name})
    ctx.part("corpus", configurations=len(cres), interfaces=nif, derived_types=nst, constants=ncon)
    level = 1 if quick else 2
    libs = [("Lone%d" % i, part) for i, part in enumerate(c01.chunks(c01.l1_funcs(level), 10))]
    libs += [("Ltwo%d" % i, part) for i, part in enumerate(c01.chunks(c01.l2_funcs(quick), 10))]
    jobs = []
    for name, funcs in libs:
        for lang in ("cxx", "c"):
            for cfi in (0, 1):
                jobs.append((os.path.join(wd, "g%d" % len(jobs)), name, funcs, lang, cfi))
    gres = isolate.pmap(g_case, jobs, W)
    # libraries shroud refuses as a whole are retried function by function
    retry = []
    for job, (name, probs, counts, failed) in zip(jobs, gres):
        if failed:
            for f in job[2]:
                if job[3] in f.langs():
                    retry.append((os.path.join(wd, "r%d" % len(retry)), job[1] + "x", [f], job[3], job[4]))
    rres = isolate.pmap(g_case, retry, W) if retry else []
    gif = gst = 0
    ngen = 0
    for job, (name, probs, counts, failed) in list(zip(jobs, gres)) + list(zip(retry, rres)):
        if failed:
            ngen += 1
            continue
        gif += counts["interfaces"]
        gst += counts["structs"]
        ctx.outcome("g %s" % ("ok" if not probs else "bad"))
        for key, msg in probs:
            ctx.violation("g %s [%s cfi=%d]" % (re.sub(r"[A-Z]{3}_f[a-z]+\d+", "FN", key), job[3], job[4]), msg, {"kind": "g", "lib": name, "lang": job[3], "cfi": job[4]})
    rjobs = [(os.path.join(wd, "raw%d" % i), "ownership library%s cfi=%d" % (" with renamed helper names" if rn else "", cfi), rn, cfi)
             for i, (rn, cfi) in enumerate([(False, 0), (True, 0), (False, 1), (True, 1)])]
    for label, probs, counts in isolate.pmap(raw_case, rjobs, W):
        gif += counts["interfaces"]
        gst += counts["structs"]
        ctx.outcome("raw %s" % ("ok" if not probs else "bad"))
        for key, msg in probs:
            ctx.violation("raw %s %s" % (label, key), msg, {"kind": "raw", "label": label})
    sjobs = [(os.path.join(wd, "stmt%d" % i),) + t for i, t in enumerate(stmt_libs())]
    for label, probs, counts in isolate.pmap(stmt_case, sjobs, W):
        gif += counts["interfaces"]
        ctx.outcome("stmt %s" % ("ok" if not probs else "bad"))
        for key, msg in probs:
            ctx.violation("raw %s %s" % (label, key), msg, {"kind": "stmt", "label": label})
    total = nif + gif
    ctx.count(states=len(cres) + len(gres) + len(rres), transitions=total + nst + gst, validated=total + nst + gst)
    ctx.nontrivial_n(total)
    ctx.part("g_libraries", libraries=len(gres) + len(rres), interfaces=gif, derived_types=gst, not_generated=ngen)
    ctx.sample({"interface": "subroutine c_a_cstr_out_bufferify(s, Ns) bind(C, name=\"ATO_a_cstr_out_bufferify\")", "c": "void ATO_a_cstr_out_bufferify(char *s, int Ns)"})
    ctx.cov["rule"] = ("every bind(C) interface body and derived type of every generated module (corpus x 50 configurations; atom libraries x {c,c++} x F_CFI): gfortran's "
                      "-fc-prototypes view vs clang's AST of the C declarations, compared by ABI class; states = output directories, transitions = interfaces + types compared")
    ctx.assumptions += ["signedness and typedef spelling are ignored (Fortran has no unsigned); type(C_PTR)/void* matches any object pointer",
                        "gfortran 12 -fc-prototypes and clang 14 -ast-dump=json as the two views"]


def replay(ctx, path):
    with open(path) as fp:
        p = json.load(fp)["payload"]
    print(p)
    ctx.count(states=1, transitions=1)
