"""C06 - wrapped objects and returned memory are released exactly once, never early.

Explicit-state model checking of the capsule / ownership protocol of the generated C API:
a reference model of who owns what is explored breadth first; every (state, operation) pair
whose precondition holds is executed on the real generated wrappers (a fresh driver process
replays the shortest history to the state, then the operation) and after every step the
library-side registry, the C++ heap balance (operator new/delete), the malloc balance of the
wrappers and the handle fields must equal the model.  The same histories run once more under
AddressSanitizer without the instrumented allocator.
"""
from __future__ import annotations

import collections
import json
import os
import shutil

import yaml

from .. import build, gen, isolate

YAML = """\
library: Own
cxx_header: own.hpp
options:
  wrap_python: false
  wrap_lua: false
declarations:
- decl: class Obj
  declarations:
  - decl: Obj(int id)
  - decl: ~Obj()
  - decl: int id() const
- decl: Obj *make(int id) +owner(caller)
- decl: Obj *borrow()
- decl: Obj byvalue(int id)
- decl: std::string name()
- decl: const std::string &nameref()
- decl: const std::string *nameptrC() +owner(caller)
- decl: const std::string *nameptrL() +owner(library)
- decl: int *newArray(int n) +owner(caller)+dimension(n)
- decl: int *libArray(int n) +dimension(n)
- decl: void fillVec(std::vector<int> &v +intent(out))
- decl: void takeStr(const std::string &s)
- decl: void takeCstr(const char *s)
"""

HPP = r"""
#ifndef OWN_HPP
#define OWN_HPP
#include <string>
#include <vector>
#include <cstddef>
class Obj {
    int m_id; int m_alive;
public:
    Obj() : m_id(0), m_alive(0) { }
    Obj(int id);
    Obj(const Obj &o);
    Obj &operator=(const Obj &o);
    ~Obj();
    int id() const;
#ifndef VT_ASAN
    static void *operator new(size_t n);
    static void operator delete(void *p);
#endif
};
Obj *make(int id);
Obj *borrow();
Obj byvalue(int id);
std::string name();
const std::string &nameref();
const std::string *nameptrC();
const std::string *nameptrL();
int *newArray(int n);
int *libArray(int n);
void fillVec(std::vector<int> &v);
void takeStr(const std::string &s);
void takeCstr(const char *s);
#endif
"""

CPP = r"""
#include <cstdio>
#include <cstdlib>
#include <cstring>
#include <new>
#include "own.hpp"
#define LONGTEXT "a string that is too long for the small string optimisation"
extern "C" {
long vt_cxx_live = 0;      /* outstanding operator new blocks */
int vt_ctor = 0, vt_dtor = 0, vt_dd = 0, vt_libfree = 0;
int vt_live[64];
int vt_nlive = 0;
long vt_mal_live = 0; int vt_count_malloc = 0;
}
static void live_add(int id) { vt_live[vt_nlive++] = id; }
static int live_del(int id) { for (int i = 0; i < vt_nlive; i++) if (vt_live[i] == id) { vt_live[i] = vt_live[--vt_nlive]; return 1; } return 0; }
#ifndef VT_ASAN
/* counted global allocator; Obj storage comes from an arena that is never reused, so that a second
   delete of the same object is an observable event instead of undefined behaviour */
extern "C" void *__real_malloc(size_t);
extern "C" void __real_free(void *);
void *operator new(size_t n) { void *p = __real_malloc(n ? n : 1); if (!p) throw std::bad_alloc(); vt_cxx_live++; return p; }
void operator delete(void *p) noexcept { if (p) { vt_cxx_live--; __real_free(p); } }
void operator delete(void *p, size_t) noexcept { if (p) { vt_cxx_live--; __real_free(p); } }
static char arena[64 * 64]; static int arena_n = 0;
void *Obj::operator new(size_t n) { vt_cxx_live++; return arena + 64 * (arena_n++); }
void Obj::operator delete(void *p) { vt_cxx_live--; }
#endif
Obj::Obj(int id) : m_id(id), m_alive(1) { vt_ctor++; live_add(id); }
Obj::Obj(const Obj &o) : m_id(o.m_id), m_alive(1) { vt_ctor++; live_add(m_id); }
Obj &Obj::operator=(const Obj &o) { if (m_alive) live_del(m_id); else { vt_ctor++; } m_id = o.m_id; m_alive = 1; live_add(m_id); return *this; }
Obj::~Obj() { if (!m_alive) { vt_dd++; return; } m_alive = 0; vt_dtor++; if (m_id == 900) vt_libfree++; live_del(m_id); }
int Obj::id() const { return m_alive ? m_id : -1; }
static Obj *libobj = 0;
static std::string *libstr = 0;
static int libarr[8];
extern "C" void vt_init(void) { if (!libobj) { libobj = new Obj(900); libstr = new std::string(LONGTEXT " (library)"); } }
Obj *make(int id) { return new Obj(id); }
Obj *borrow() { return libobj; }
Obj byvalue(int id) { return Obj(id); }
std::string name() { return std::string(LONGTEXT); }
const std::string &nameref() { return *libstr; }
const std::string *nameptrC() { return new std::string(LONGTEXT " (caller)"); }
const std::string *nameptrL() { return libstr; }
int *newArray(int n) { int *p = (int *) std::malloc(sizeof(int) * (n ? n : 1)); for (int i = 0; i < n; i++) p[i] = i + 1; return p; }
int *libArray(int n) { for (int i = 0; i < n && i < 8; i++) libarr[i] = 10 + i; return libarr; }
void fillVec(std::vector<int> &v) { v.clear(); v.push_back(4); v.push_back(5); v.push_back(6); }
void takeStr(const std::string &s) { (void) s.size(); }
void takeCstr(const char *s) { (void) std::strlen(s); }
#ifndef VT_ASAN
extern "C" void *__wrap_malloc(size_t n) { void *p = __real_malloc(n); if (vt_count_malloc && p) vt_mal_live++; return p; }
extern "C" void __wrap_free(void *p) { if (vt_count_malloc && p) vt_mal_live--; __real_free(p); }
#endif
"""

DRIVER = r"""
#include <stdio.h>
#include <stdlib.h>
#include <string.h>
#include "wrapOwn.h"
#include "wrapObj.h"
extern long vt_cxx_live, vt_mal_live; extern int vt_ctor, vt_dtor, vt_dd, vt_libfree, vt_live[], vt_nlive, vt_count_malloc;
void vt_init(void);
void OWN_ShroudCopyStringAndFree(OWN_SHROUD_array *data, char *c_var, size_t c_var_len);
void OWN_ShroudCopyArray(OWN_SHROUD_array *data, void *c_var, size_t c_var_size);
static OWN_Obj h[2];
static OWN_SHROUD_array sctx, actx, vctx;
static int cmpi(const void *a, const void *b) { return *(const int *) a - *(const int *) b; }
static long base_cxx;
static void status(const char *op, long val) {
    int ids[64]; memcpy(ids, vt_live, sizeof(int) * vt_nlive); qsort(ids, vt_nlive, sizeof(int), cmpi);
    printf("ST %s val=%ld live=", op, val);
    for (int i = 0; i < vt_nlive; i++) printf("%s%d", i ? "," : "", ids[i]);
    printf(" net=%d dd=%d libfree=%d cxx=%ld mal=%ld", vt_ctor - vt_dtor, vt_dd, vt_libfree, vt_cxx_live - base_cxx, vt_mal_live);
    for (int s = 0; s < 2; s++) printf(" h%d=%d/%d", s, h[s].addr != NULL, h[s].idtor);
    printf(" s=%d/%d a=%d/%d v=%d/%d\n", sctx.cxx.addr != NULL, sctx.cxx.idtor, actx.cxx.addr != NULL, actx.cxx.idtor, vctx.cxx.addr != NULL, vctx.cxx.idtor);
    fflush(stdout);
}
int main(int argc, char **argv) {
    vt_init();
    base_cxx = vt_cxx_live; vt_ctor = 0;
    memset(h, 0, sizeof h); memset(&sctx, 0, sizeof sctx); memset(&actx, 0, sizeof actx); memset(&vctx, 0, sizeof vctx);
    status("init", 0);
    for (int i = 1; i < argc; i++) {
        const char *op = argv[i]; long val = 0;
        int s = op[1] - '0', id = (int) (strchr(op, ':') ? atoi(strchr(op, ':') + 1) : 0);
        vt_count_malloc = 1;
        switch (op[0]) {
        case 'c': OWN_Obj_ctor(id, &h[s]); break;
        case 'm': val = OWN_Obj_id(&h[s]); break;
        case 'k': OWN_make(id, &h[s]); break;
        case 'b': OWN_borrow(&h[s]); break;
        case 'v': OWN_byvalue(id, &h[s]); break;
        case 'r': OWN_SHROUD_memory_destructor((OWN_SHROUD_capsule_data *) &h[s]); break;
        case 'd': OWN_Obj_dtor(&h[s]); break;
        case 'y': h[op[2] - '0'] = h[s]; break;
        case 'S':
            if (op[1] == 'N') OWN_name_bufferify(&sctx);
            else if (op[1] == 'R') OWN_nameref_bufferify(&sctx);
            else if (op[1] == 'C') OWN_nameptr_c_bufferify(&sctx);
            else if (op[1] == 'L') OWN_nameptr_l_bufferify(&sctx);
            else if (op[1] == 'x') { char *buf = (char *) malloc(sctx.elem_len + 1); OWN_ShroudCopyStringAndFree(&sctx, buf, sctx.elem_len); val = (long) sctx.elem_len; buf[sctx.elem_len] = 0; val = val * 1000 + (long) strlen(buf); free(buf); }
            break;
        case 'A':
            if (op[1] == 'n') { OWN_new_array_bufferify(&actx, id); val = (long) actx.size; }
            else if (op[1] == 'l') { OWN_lib_array_bufferify(&actx, id); val = (long) actx.size; }
            else if (op[1] == 'x') { OWN_SHROUD_memory_destructor(&actx.cxx); }
            break;
        case 'V':
            if (op[1] == 'f') { OWN_fill_vec_bufferify(&vctx); val = (long) vctx.size; }
            else if (op[1] == 'x') { int buf[8]; OWN_ShroudCopyArray(&vctx, buf, 3); val = buf[0] * 100 + buf[1] * 10 + buf[2]; }
            break;
        case 'T':
            if (op[1] == 's') OWN_take_str_bufferify("hello world, this is a long argument     ", 36);
            else if (op[1] == 'c') OWN_take_cstr("plain");
            break;
        default: printf("BADOP %s\n", op); return 2;
        }
        vt_count_malloc = 0;
        status(op, val);
    }
    return 0;
}
"""


# ---------------------------------------------------------------- the reference model
class M(object):
    """Model state: handle slots, pending contexts, live object ids and counters."""

    def __init__(self):
        self.h = [None, None]  # None | dict(id, owner in 'caller'|'library', alias=bool, dtored=bool)
        self.s = None  # pending string context: None | 'N' | 'R' | 'C' | 'L'
        self.a = None  # pending array context: None | 'n' | 'l'
        self.v = None  # pending vector context: None | 'f'
        self.live = [900]  # ids of live objects; 900 is the object the library owns
        self.ctor = 0
        self.dtor = 0
        self.stale = set()  # slots whose object was released through another handle

    def clone(self):
        m = M()
        m.h = [dict(x) if x else None for x in self.h]
        m.s, m.a, m.v = self.s, self.a, self.v
        m.live = list(self.live)
        m.ctor, m.dtor = self.ctor, self.dtor
        m.stale = set(self.stale)
        return m

    def key(self):
        def hk(x):
            return None if x is None else (x["owner"], x["id"] if x["owner"] != "library" else 900, x.get("dtored", False), x.get("alias", False))
        # ids are abstracted to "which slot created it"; counters are not part of the state
        return (hk(self.h[0]), hk(self.h[1]), self.s, self.a, self.v, tuple(sorted(self.live)), tuple(sorted(self.stale)))


IDS = {0: 5, 1: 7}


def enabled(m):
    """Operations whose precondition holds in model state m (caller errors are outside the property)."""
    ops = []
    for s in (0, 1):
        x = m.h[s]
        if x is None:
            ops += ["c%d:%d" % (s, IDS[s]), "k%d:%d" % (s, IDS[s]), "b%d" % s, "v%d:%d" % (s, IDS[s])]
            ops.append("r%d" % s)  # releasing an empty / already released handle does nothing
        else:
            if s not in m.stale:
                if not x.get("dtored"):
                    ops.append("m%d" % s)
                ops.append("r%d" % s)
                if x["owner"] == "caller" and not x.get("dtored") and not x.get("alias") and not any(
                        (m.h[t] or {}).get("alias") for t in (0, 1) if t != s):
                    ops.append("d%d" % s)  # explicit destructor call on an object the caller owns
                t = 1 - s
                if m.h[t] is None and not x.get("dtored") and not x.get("alias"):
                    ops.append("y%d%d" % (s, t))
    if m.s is None:
        ops += ["SN", "SR", "SC", "SL"]
    else:
        ops.append("Sx")
    if m.a is None:
        ops += ["An:3", "Al:3", "An:0"]
    else:
        ops.append("Ax")
    if m.v is None:
        ops.append("Vf")
    else:
        ops.append("Vx")
    ops += ["Ts", "Tc"]
    return ops


def step(m, op):
    """Apply op to a copy of m; returns (new model, expected val)."""
    m = m.clone()
    val = 0
    k = op[0]
    if k in "cmkbvrdy":
        s = int(op[1])
    ident = int(op.split(":")[1]) if ":" in op else 0
    if k == "c" or k == "k" or k == "v":
        m.h[s] = {"id": ident, "owner": "caller"}
        m.live.append(ident)
        m.ctor += 1
    elif k == "b":
        m.h[s] = {"id": 900, "owner": "library"}
    elif k == "m":
        val = m.h[s]["id"]
    elif k == "d":
        x = m.h[s]
        m.live.remove(x["id"])
        m.dtor += 1
        x["dtored"] = True
    elif k == "r":
        x = m.h[s]
        if x is not None:
            if x["owner"] == "caller" and not x.get("dtored"):
                m.live.remove(x["id"])
                m.dtor += 1
                for t in (0, 1):
                    if t != s and m.h[t] is not None and m.h[t]["id"] == x["id"] and m.h[t]["owner"] == "caller":
                        m.stale.add(t)
            m.h[s] = None
    elif k == "y":
        t = int(op[2])
        m.h[t] = dict(m.h[s])
        m.h[t]["alias"] = True
    elif k == "S":
        if op[1] == "x":
            n = {"N": 59, "R": 69, "C": 68, "L": 69}[m.s]
            val = n * 1000 + n
            m.s = None
        else:
            m.s = op[1]
    elif k == "A":
        if op[1] == "x":
            m.a = None
        else:
            m.a = op[1]
            val = ident
    elif k == "V":
        if op[1] == "x":
            val = 456
            m.v = None
        else:
            m.v = "f"
            val = 3
    return m, val


def expected_line(m, op, val):
    """The ST line the driver must print in model state m after op."""
    live = ",".join(str(i) for i in sorted(m.live))
    # C++ heap blocks owned by the caller right now
    cxx = 0
    seen = set()
    for s in (0, 1):
        x = m.h[s]
        if x and x["owner"] == "caller" and not x.get("dtored") and s not in m.stale and x["id"] not in seen:
            seen.add(x["id"])
            cxx += 1
    if m.s in ("N", "C"):
        cxx += 2  # the std::string object and its character buffer
    if m.v == "f":
        cxx += 2  # the std::vector object and its element buffer
    mal = 1 if m.a == "n" else 0
    hs = []
    for s in (0, 1):
        x = m.h[s]
        if x is None:
            hs.append("h%d=0/0" % s)
        elif x.get("dtored"):
            hs.append("h%d=0/%d" % (s, 1))
        else:
            hs.append("h%d=1/%d" % (s, 1 if x["owner"] == "caller" else 0))
    sidt = {"N": 2, "C": 3, "R": 0, "L": 0}
    sfield = "s=%d/%d" % (1 if m.s else 0, sidt[m.s] if m.s else 0)
    afield = "a=%d/%d" % (1 if m.a else 0, 4 if m.a == "n" else 0)
    vfield = "v=%d/%d" % (1 if m.v else 0, 5 if m.v else 0)
    return "ST %s val=%d live=%s net=%d dd=0 libfree=0 cxx=%d mal=%d %s %s %s %s" % (
        op, val, live, m.ctor - m.dtor, cxx, mal, " ".join(hs), sfield, afield, vfield)


def build_drivers(ctx):
    wd = ctx.subdir("build")
    r, tree = gen.gen_tree(wd, yaml.safe_load(YAML), keep=True)
    if r.status != "ok":
        raise RuntimeError("shroud failed on the ownership library: %s" % r.msg)
    out = os.path.join(wd, "out")
    open(os.path.join(out, "own.hpp"), "w").write(HPP)
    open(os.path.join(out, "subject.cpp"), "w").write(CPP)
    open(os.path.join(out, "driver.c"), "w").write(DRIVER)
    gens = sorted(f for f in os.listdir(out) if f.endswith(".cpp") and f != "subject.cpp")
    exes = {}
    for tag, flags, link in (("plain", [], ["-Wl,--wrap=malloc,--wrap=free"]),
                             ("asan", ["-DVT_ASAN", "-fsanitize=address", "-fno-omit-frame-pointer"], ["-fsanitize=address"])):
        objs = []
        for s in gens + ["subject.cpp", "driver.c"]:
            o = "%s_%s.o" % (os.path.splitext(s)[0], tag)
            cc = ["g++", "-std=c++11"] if s.endswith(".cpp") else ["gcc", "-std=c99"]
            rc, so, se = build.sh(cc + ["-g", "-O0", "-w", "-I."] + flags + ["-c", s, "-o", o], out)
            if rc != 0:
                raise build.BuildError("compile %s" % s, se[:800])
            objs.append(o)
        rc, so, se = build.sh(["g++", "-o", "drv_" + tag] + objs + link, out)
        if rc != 0:
            raise build.BuildError("link", se[:800])
        exes[tag] = os.path.join(out, "drv_" + tag)
    return exes


def run_history(args):
    exe, hist, asan = args
    env = dict(os.environ, ASAN_OPTIONS="detect_leaks=1:exitcode=99:abort_on_error=0")
    rc, so, se = build.sh([exe] + list(hist), os.path.dirname(exe), env=env, timeout=60)
    return rc, [l for l in so.split("\n") if l.startswith("ST ")], (se or "")[-600:]


def model_trace(hist):
    m = M()
    lines = [expected_line(m, "init", 0)]
    for op in hist:
        m, val = step(m, op)
        lines.append(expected_line(m, op, val))
    return m, lines


def run(ctx):
    quick = ctx.tier == "quick"
    depth = 4 if quick else 5
    try:
        exes = build_drivers(ctx)
    except build.BuildError as e:
        ctx.violation("build", "the ownership library's wrappers do not build: %s" % e, {"kind": "build"})
        ctx.count(states=1, transitions=1)
        return
    # breadth first over model states; every (state, op) transition is executed on the implementation
    init = M()
    seen = {init.key(): ()}
    frontier = collections.deque([()])
    transitions = []
    while frontier:
        hist = frontier.popleft()
        m, _ = model_trace(hist)
        if len(hist) >= depth:
            continue
        for op in enabled(m):
            nh = hist + (op,)
            transitions.append(nh)
            m2, _ = step(m, op)
            k = m2.key()
            if k not in seen:
                seen[k] = nh
                frontier.append(nh)
    # plus every history up to depth 3 without state merging (tests the merging itself)
    unmerged = []
    lvl = [()]
    for d in range(3):
        nxt = []
        for hist in lvl:
            m, _ = model_trace(hist)
            for op in enabled(m):
                nxt.append(hist + (op,))
        unmerged += nxt
        lvl = nxt
    allh = sorted(set(transitions) | set(unmerged), key=lambda h: (len(h), h))
    res = isolate.pmap(run_history, [(exes["plain"], h, False) for h in allh], ctx.workers, chunksize=16)
    nbad = 0
    for hist, (rc, got, se) in zip(allh, res):
        _, want = model_trace(hist)
        if rc != 0 or got != want:
            nbad += 1
            diff = ""
            for i, w in enumerate(want):
                g = got[i] if i < len(got) else "(missing)"
                if g != w:
                    diff = "after %s:\n      got      %s\n      expected %s" % (" ".join(hist[:i]) or "(start)", g, w)
                    break
            ctx.violation("protocol %s" % key_for(hist, diff), "history %s: %s%s" % (" ".join(hist), diff or "exit %d" % rc, ("  stderr: " + se[-200:]) if rc else ""),
                          {"kind": "protocol", "history": list(hist)})
    # AddressSanitizer pass over the depth-<=3 histories and the BFS transitions (no instrumented allocator)
    ah = [h for h in allh if len(h) <= (3 if quick else 4)]
    ares = isolate.pmap(run_history, [(exes["asan"], h, True) for h in ah], ctx.workers, chunksize=8)
    for hist, (rc, got, se) in zip(ah, ares):
        # at the end of a history the caller may still own things: only memory errors count, leaks are
        # judged on histories that end in a quiescent model state
        m, _ = model_trace(hist)
        quiescent = m.live == [900] and m.s is None and m.a is None and m.v is None
        mem_error = rc != 0 and ("LeakSanitizer" not in se or "AddressSanitizer:" in se.replace("LeakSanitizer", ""))
        leak = rc != 0 and "LeakSanitizer" in se and quiescent
        if mem_error or leak:
            ctx.violation("asan %s" % key_for(hist, se), "history %s under AddressSanitizer: %s" % (" ".join(hist), se[-400:].replace("\n", " | ")),
                          {"kind": "asan", "history": list(hist)})
    ctx.count(states=len(seen), transitions=len(allh) + len(ah), validated=len(allh) + len(ah))
    ctx.nontrivial_n(len(allh))
    ctx.part("bfs", depth=depth, model_states=len(seen), transitions_executed=len(transitions), unmerged_histories_depth3=len(unmerged), asan_histories=len(ah))
    ctx.sample({"history": ["k0:5", "y01", "m1", "r0", "SN", "Sx"]})
    ctx.cov["rule"] = ("explicit-state BFS over the ownership model (two handle slots, pending string / array / vector contexts) to depth %d: every (state, operation) "
                      "transition whose precondition holds is executed on the generated C API by replaying the shortest history in a fresh process; after every step the "
                      "registry of live objects, construct/destruct counts, double-delete and library-free events, the C++ heap and malloc balances and the capsule fields "
                      "must equal the model; all histories to depth 3 also run unmerged; the same histories run under AddressSanitizer" % depth)
    ctx.cov["bounds"] = {"depth": depth, "slots": 2}
    ctx.assumptions += ["operations through a handle the model marks stale (released through an alias) are caller errors and are not generated",
                        "the C API (including the bufferify entry points Fortran calls) is the driven seam; Fortran finalisation and Python tp_del are not explored"]


def key_for(hist, text):
    return " ".join(hist[-2:]) if hist else "start"


def replay(ctx, path):
    with open(path) as fp:
        p = json.load(fp)["payload"]
    exes = build_drivers(ctx)
    rc, got, se = run_history((exes["plain"], p["history"], False))
    _, want = model_trace(tuple(p["history"]))
    for g, w in zip(got, want):
        print("got     ", g)
        print("expected", w)
    ctx.count(states=1, transitions=1)
