"""C06 - wrapped objects and returned memory are released exactly once, never early.

Explicit-state model checking of the capsule / ownership protocol of the generated C API:
a reference model of who owns what is explored breadth first; every (state, operation) pair
whose precondition holds is executed on the real generated wrappers (a fresh driver process
replays the shortest history to the state, then the operation) and after every step the
library-side registry, the C++ heap balance (operator new/delete), the malloc balance of the
wrappers and the handle fields must equal the model.  The same histories run once more under
AddressSanitizer without the instrumented allocator.
"""
from __future__ import annotations

import collections
import itertools
import json
import os
import shutil

import yaml

from .. import build, gen, isolate

YAML = """\
library: Own
cxx_header: own.hpp
options:
  wrap_python: false
  wrap_lua: false
declarations:
- decl: class Thing
  declarations:
  - decl: Thing(int id)
  - decl: ~Thing()
  - decl: int id() const
- decl: Thing *make(int id) +owner(caller)
- decl: Thing *borrow()
- decl: Thing byvalue(int id)
- decl: std::string name()
- decl: const std::string &nameref()
- decl: const std::string *nameptrC() +owner(caller)
- decl: const std::string *nameptrL() +owner(library)
- decl: std::string emptyName()
- decl: const std::string *emptyPtrC() +owner(caller)
- decl: int *newArray(int n) +owner(caller)+dimension(n)
- decl: int *libArray(int n) +dimension(n)
- decl: int *poolGet(int n) +owner(caller)+dimension(n)+free_pattern(pool_release)
- decl: void fillVec(std::vector<int> &v +intent(out))
- decl: void takeStr(const std::string &s)
- decl: void takeCstr(const char *s)
- decl: void takeNames(char **names +intent(in)+rank(1))
- decl: void modStr(std::string &s +intent(inout))
- decl: void outCstr(char *s +intent(out)+charlen(20))
- decl: void growCstr(char *s +intent(inout))
- decl: void takeVec(const std::vector<int> &v)
- decl: void takeVecStr(const std::vector<std::string> &v)
- decl: int dotTwo(const int *a +rank(1), int na +implied(size(a)), const int *b +rank(1), int nb +implied(size(b)))
- decl: void fillVecN(int n, std::vector<int> &v +intent(out))
- decl: std::vector<int> retVec()
# the user's own release code (strings.yaml, getConstStringPtrLen): 'final' runs after the result has been copied out
- decl: const std::string *makeLabel(int n) +len(40)
  fstatements:
    c_buf:
      final:
      - delete {cxx_var};
patterns:
  pool_release: |
    poolRelease(reinterpret_cast<int *>(ptr));
"""

HPP = r"""
#ifndef OWN_HPP
#define OWN_HPP
#include <string>
#include <vector>
#include <cstddef>
class Thing {
    int m_id; int m_alive;
public:
    Thing() : m_id(0), m_alive(0) { }
    Thing(int id);
    Thing(const Thing &o);
    Thing &operator=(const Thing &o);
    ~Thing();
    int id() const;
#ifndef VT_ASAN
    static void *operator new(size_t n);
    static void operator delete(void *p);
#endif
};
Thing *make(int id);
Thing *borrow();
Thing byvalue(int id);
std::string name();
const std::string &nameref();
const std::string *nameptrC();
const std::string *nameptrL();
std::string emptyName();
const std::string *emptyPtrC();
int *newArray(int n);
int *libArray(int n);
int *poolGet(int n);
void poolRelease(int *p);
void fillVec(std::vector<int> &v);
void takeStr(const std::string &s);
void takeCstr(const char *s);
void takeNames(char **names);
void modStr(std::string &s);
void outCstr(char *s);
void growCstr(char *s);
const std::string *makeLabel(int n);
void takeVec(const std::vector<int> &v);
void takeVecStr(const std::vector<std::string> &v);
int dotTwo(const int *a, int na, const int *b, int nb);
void fillVecN(int n, std::vector<int> &v);
std::vector<int> retVec();
#endif
"""

CPP = r"""
#include <cstdio>
#include <cstdlib>
#include <cstring>
#include <new>
#include "own.hpp"
#define LONGTEXT "a string that is too long for the small string optimisation"
extern "C" {
long vt_cxx_live = 0;      /* outstanding operator new blocks */
int vt_ctor = 0, vt_dtor = 0, vt_dd = 0, vt_libfree = 0;
int vt_live[64];
int vt_nlive = 0;
long vt_mal_live = 0; int vt_count_malloc = 0; long vt_base_cxx = 0;
}
static void live_add(int id) { vt_live[vt_nlive++] = id; }
static int live_del(int id) { for (int i = 0; i < vt_nlive; i++) if (vt_live[i] == id) { vt_live[i] = vt_live[--vt_nlive]; return 1; } return 0; }
#ifndef VT_ASAN
/* counted global allocator; Thing storage comes from an arena that is never reused, so that a second
   delete of the same object is an observable event instead of undefined behaviour */
extern "C" void *__real_malloc(size_t);
extern "C" void __real_free(void *);
void *operator new(size_t n) { void *p = __real_malloc(n ? n : 1); if (!p) throw std::bad_alloc(); vt_cxx_live++; return p; }
void operator delete(void *p) noexcept { if (p) { vt_cxx_live--; __real_free(p); } }
void operator delete(void *p, size_t) noexcept { if (p) { vt_cxx_live--; __real_free(p); } }
static char arena[64 * 64]; static int arena_n = 0;
void *Thing::operator new(size_t n) { vt_cxx_live++; return arena + 64 * (arena_n++); }
void Thing::operator delete(void *p) { vt_cxx_live--; }
#endif
Thing::Thing(int id) : m_id(id), m_alive(1) { vt_ctor++; live_add(id); }
Thing::Thing(const Thing &o) : m_id(o.m_id), m_alive(1) { vt_ctor++; live_add(m_id); }
Thing &Thing::operator=(const Thing &o) { if (m_alive) live_del(m_id); else { vt_ctor++; } m_id = o.m_id; m_alive = 1; live_add(m_id); return *this; }
Thing::~Thing() { if (!m_alive) { vt_dd++; return; } m_alive = 0; vt_dtor++; if (m_id == 900) vt_libfree++; live_del(m_id); }
int Thing::id() const { return m_alive ? m_id : -1; }
static Thing *libobj = 0;
static std::string *libstr = 0;
static int libarr[8];
extern "C" void vt_init(void) { if (!libobj) { libobj = new Thing(900); libstr = new std::string(LONGTEXT " (library)"); } }
Thing *make(int id) { return new Thing(id); }
Thing *borrow() { return libobj; }
Thing byvalue(int id) { return Thing(id); }
std::string name() { return std::string(LONGTEXT); }
const std::string &nameref() { return *libstr; }
const std::string *nameptrC() { return new std::string(LONGTEXT " (caller)"); }
const std::string *nameptrL() { return libstr; }
std::string emptyName() { return std::string(); }
const std::string *emptyPtrC() { return new std::string(); }
int *newArray(int n) { int *p = (int *) std::malloc(sizeof(int) * (n ? n : 1)); for (int i = 0; i < n; i++) p[i] = i + 1; return p; }
static int pool[4][8]; static int pool_used[4];
extern "C" { int vt_pool_live = 0; }
int *poolGet(int n) { for (int k = 0; k < 4; k++) if (!pool_used[k]) { pool_used[k] = 1; vt_pool_live++; for (int i = 0; i < n && i < 8; i++) pool[k][i] = 20 + i; return pool[k]; } return 0; }
/* the library's own release function: not NULL-safe, counts a release of anything that is not a live slab */
void poolRelease(int *p) { for (int k = 0; k < 4; k++) if (p == pool[k] && pool_used[k]) { pool_used[k] = 0; vt_pool_live--; return; } vt_dd++; }
int *libArray(int n) { for (int i = 0; i < n && i < 8; i++) libarr[i] = 10 + i; return libarr; }
void fillVec(std::vector<int> &v) { v.clear(); v.push_back(4); v.push_back(5); v.push_back(6); }
void takeStr(const std::string &s) { (void) s.size(); }
void takeCstr(const char *s) { (void) std::strlen(s); }
extern "C" { long vt_seen = 0; }
void takeNames(char **names) { vt_seen = (long) (names[0] ? std::strlen(names[0]) : 9) * 100 + (long) (names[1] ? std::strlen(names[1]) : 9); }
void modStr(std::string &s) { vt_seen = (long) s.size(); s += " and a tail that does not fit into the caller's variable"; }
void outCstr(char *s) { std::strcpy(s, "twelve chars"); }
const std::string *makeLabel(int n) { return new std::string((size_t) n, 'L'); }
void growCstr(char *s) { vt_seen = (long) std::strlen(s); std::strcat(s, "+xy"); }  /* the caller's variable has room for it */
void takeVec(const std::vector<int> &v) { vt_seen = (long) v.size(); }
void takeVecStr(const std::vector<std::string> &v) { vt_seen = (long) v.size() * 100 + (long) v[v.size() - 1].size(); }
int dotTwo(const int *a, int na, const int *b, int nb) { int s = 0; for (int i = 0; i < na && i < nb; i++) s += a[i] * b[i]; return s; }
void fillVecN(int n, std::vector<int> &v) { v.clear(); for (int i = 1; i <= n; i++) v.push_back(i); }
std::vector<int> retVec() { std::vector<int> v; v.push_back(4); v.push_back(5); v.push_back(6); return v; }
static int cmpi(const void *a, const void *b) { return *(const int *) a - *(const int *) b; }
extern "C" void vt_status_f(const char *op, long val, int a0, int o0, int a1, int o1)
{
    int ids[64]; std::memcpy(ids, vt_live, sizeof(int) * vt_nlive); std::qsort(ids, vt_nlive, sizeof(int), cmpi);
    std::printf("ST %s val=%ld live=", op, val);
    for (int i = 0; i < vt_nlive; i++) std::printf("%s%d", i ? "," : "", ids[i]);
    std::printf(" net=%d dd=%d libfree=%d pool=%d cxx=%ld h0=%d/%d h1=%d/%d\n", vt_ctor - vt_dtor, vt_dd, vt_libfree, vt_pool_live, vt_cxx_live - vt_base_cxx,
                a0, a0 ? o0 != 0 : 0, a1, a1 ? o1 != 0 : 0);
    std::fflush(stdout);
}
extern "C" void vt_base(void) { vt_base_cxx = vt_cxx_live; vt_ctor = 0; }
extern "C" void vt_mal_begin(void) { vt_mal_live = 0; vt_count_malloc = 1; }
extern "C" void vt_mal_end(const char *op) { vt_count_malloc = 0; std::printf("MAL %s %ld\n", op, vt_mal_live); std::fflush(stdout); vt_mal_live = 0; }
#ifndef VT_ASAN
/* malloc'ed memory is handed out filled with a pattern: code that reads it before writing it fails the same way every time */
extern "C" void *__wrap_malloc(size_t n) { void *p = __real_malloc(n); if (p) std::memset(p, 0xA5, n); if (vt_count_malloc && p) vt_mal_live++; return p; }
extern "C" void __wrap_free(void *p) { if (vt_count_malloc && p) vt_mal_live--; __real_free(p); }
extern "C" void *__real_calloc(size_t, size_t);
extern "C" void *__wrap_calloc(size_t n, size_t m) { void *p = __real_calloc(n, m); if (vt_count_malloc && p) vt_mal_live++; return p; }
/* strdup allocates inside libc: count it like malloc so that its free balances */
extern "C" char *__wrap_strdup(const char *s) { size_t n = std::strlen(s) + 1; char *p = (char *) __wrap_malloc(n); if (p) std::memcpy(p, s, n); return p; }
#endif
"""

DRIVER = r"""
#include <stdio.h>
#include <stdlib.h>
#include <string.h>
#include "wrapOwn.h"
#include "wrapThing.h"
extern long vt_cxx_live, vt_mal_live, vt_seen; extern int vt_pool_live, vt_ctor, vt_dtor, vt_dd, vt_libfree, vt_live[], vt_nlive, vt_count_malloc;
void vt_init(void);
void OWN_ShroudCopyStringAndFree(OWN_SHROUD_array *data, char *c_var, size_t c_var_len);
void OWN_ShroudCopyArray(OWN_SHROUD_array *data, void *c_var, size_t c_var_size);
static OWN_Thing h[2];
static OWN_SHROUD_array sctx, actx, vctx;
static int cmpi(const void *a, const void *b) { return *(const int *) a - *(const int *) b; }
static long base_cxx;
static void status(const char *op, long val) {
    int ids[64]; memcpy(ids, vt_live, sizeof(int) * vt_nlive); qsort(ids, vt_nlive, sizeof(int), cmpi);
    printf("ST %s val=%ld live=", op, val);
    for (int i = 0; i < vt_nlive; i++) printf("%s%d", i ? "," : "", ids[i]);
    printf(" net=%d dd=%d libfree=%d pool=%d cxx=%ld mal=%ld", vt_ctor - vt_dtor, vt_dd, vt_libfree, vt_pool_live, vt_cxx_live - base_cxx, vt_mal_live);
    /* addr set? / owned by the caller (destructor index non-zero)?  The index is only meaningful while an address is held */
    for (int s = 0; s < 2; s++) printf(" h%d=%d/%d", s, h[s].addr != NULL, h[s].addr ? h[s].idtor != 0 : 0);
    printf(" s=%d/%d a=%d/%d v=%d/%d\n", sctx.cxx.addr != NULL, sctx.cxx.addr ? sctx.cxx.idtor != 0 : 0, actx.cxx.addr != NULL, actx.cxx.addr ? actx.cxx.idtor != 0 : 0,
           vctx.cxx.addr != NULL, vctx.cxx.addr ? vctx.cxx.idtor != 0 : 0);
    fflush(stdout);
}
int main(int argc, char **argv) {
    vt_init();
    base_cxx = vt_cxx_live; vt_ctor = 0;
    memset(h, 0, sizeof h); memset(&sctx, 0, sizeof sctx); memset(&actx, 0, sizeof actx); memset(&vctx, 0, sizeof vctx);
    status("init", 0);
    for (int i = 1; i < argc; i++) {
        const char *op = argv[i]; long val = 0;
        int s = op[1] - '0', id = (int) (strchr(op, ':') ? atoi(strchr(op, ':') + 1) : 0);
        vt_count_malloc = 1;
        switch (op[0]) {
        case 'c': OWN_Thing_ctor(id, &h[s]); break;
        case 'm': val = OWN_Thing_id(&h[s]); break;
        case 'k': OWN_make(id, &h[s]); break;
        case 'b': OWN_borrow(&h[s]); break;
        case 'v': OWN_byvalue(id, &h[s]); break;
        case 'r': OWN_SHROUD_memory_destructor((OWN_SHROUD_capsule_data *) &h[s]); break;
        case 'd': OWN_Thing_dtor(&h[s]); break;
        case 'y': h[op[2] - '0'] = h[s]; break;
        case 'S':
            if (op[1] == 'N') OWN_name_bufferify(&sctx);
            else if (op[1] == 'R') OWN_nameref_bufferify(&sctx);
            else if (op[1] == 'C') OWN_nameptr_c_bufferify(&sctx);
            else if (op[1] == 'L') OWN_nameptr_l_bufferify(&sctx);
            else if (op[1] == 'E') OWN_empty_name_bufferify(&sctx);
            else if (op[1] == 'F') OWN_empty_ptr_c_bufferify(&sctx);
            else if (op[1] == 'x') { char *buf = (char *) malloc(sctx.elem_len + 1); OWN_ShroudCopyStringAndFree(&sctx, buf, sctx.elem_len); val = (long) sctx.elem_len; buf[sctx.elem_len] = 0; val = val * 1000 + (long) strlen(buf); free(buf); }
            break;
        case 'A':
            if (op[1] == 'n') { OWN_new_array_bufferify(&actx, id); val = (long) actx.size; }
            else if (op[1] == 'l') { OWN_lib_array_bufferify(&actx, id); val = (long) actx.size; }
            else if (op[1] == 'p') { OWN_pool_get_bufferify(&actx, id); val = (long) actx.size; }
            else if (op[1] == 'x') { OWN_SHROUD_memory_destructor(&actx.cxx); }
            break;
        case 'V':
            if (op[1] == 'f') { OWN_fill_vec_bufferify(&vctx); val = (long) vctx.size; }
            else if (op[1] == 'r') { OWN_ret_vec_bufferify(&vctx); val = (long) vctx.size; }
            else if (op[1] == 'x') { int buf[8]; OWN_ShroudCopyArray(&vctx, buf, 3); val = buf[0] * 100 + buf[1] * 10 + buf[2]; }
            break;
        case 'T':
            if (op[1] == 's') OWN_take_str_bufferify("hello world, this is a long argument     ", 36);
            else if (op[1] == 'c') OWN_take_cstr("plain");
            else if (op[1] == 'n') {
                /* two names in a blank padded character(id) array, exact size, no terminator */
                char *buf = (char *) malloc(2 * id); memset(buf, ' ', 2 * id); memcpy(buf, "ab", id < 2 ? id : 2); memcpy(buf + id, "c", id < 1 ? id : 1);
                vt_seen = -1; OWN_take_names_bufferify(buf, 2, id); val = vt_seen; free(buf);
            } else if (op[1] == 'm') {
                char *buf = (char *) malloc(id ? id : 1); memset(buf, ' ', id); memcpy(buf, "dog", id < 3 ? id : 3);
                vt_seen = -1; OWN_mod_str_bufferify(buf, id < 3 ? id : 3, id); val = vt_seen * 1000; for (int k = 0; k < id; k++) val += (buf[k] != ' '); free(buf);
            } else if (op[1] == 'g') {
                /* a character(id) variable holding "ab": the library appends three characters, which fit */
                char *buf = (char *) malloc(id ? id : 1); memset(buf, ' ', id); memcpy(buf, "ab", 2);
                vt_seen = -1; OWN_grow_cstr_bufferify(buf, 2, id); val = vt_seen * 1000; for (int k = 0; k < id; k++) val += (buf[k] != ' '); free(buf);
            } else if (op[1] == 'o') {
                char *buf = (char *) malloc(id ? id : 1); memset(buf, 'z', id);
                OWN_out_cstr_bufferify(buf, id); for (int k = 0; k < id; k++) val += (buf[k] != ' '); free(buf);
            } else if (op[1] == 'f') {
                /* the library produces id values, the caller has room for three (guards on both sides, on the heap) */
                int *buf = (int *) malloc(5 * sizeof(int)); buf[0] = 7; buf[1] = buf[2] = buf[3] = 0; buf[4] = 7;
                OWN_SHROUD_array fctx; OWN_fill_vec_n_bufferify(id, &fctx); OWN_ShroudCopyArray(&fctx, buf + 1, 3);
                val = buf[0] * 10000 + buf[1] * 1000 + buf[2] * 100 + buf[3] * 10 + buf[4]; free(buf);
                OWN_SHROUD_memory_destructor(&fctx.cxx);
            } else if (op[1] == 'v') {
                int *buf = (int *) malloc(sizeof(int) * (id ? id : 1)); for (int k = 0; k < id; k++) buf[k] = k;
                vt_seen = -1; OWN_take_vec_bufferify(buf, id); val = vt_seen; free(buf);
            } else if (op[1] == 'l') {
                /* a new std::string of id characters copied into a character(40) result; the user's final code deletes it */
                char *buf = (char *) malloc(40); memset(buf, '#', 40);
                OWN_make_label_bufferify(id, buf, 40); for (int k = 0; k < 40; k++) val += (buf[k] == 'L') + 100 * (buf[k] != 'L' && buf[k] != ' '); free(buf);
            } else if (op[1] == 'w') {
                char *buf = (char *) malloc(2 * id); memset(buf, ' ', 2 * id); memcpy(buf, "ab", id < 2 ? id : 2); memcpy(buf + id, "c", id < 1 ? id : 1);
                vt_seen = -1; OWN_take_vec_str_bufferify(buf, 2, id); val = vt_seen; free(buf);
            }
            break;
        default: printf("BADOP %s\n", op); return 2;
        }
        vt_count_malloc = 0;
        status(op, val);
    }
    return 0;
}
"""


FDRIVER = r"""
module vt_c
  use iso_c_binding
  implicit none
  integer(C_LONG), bind(C, name="vt_seen") :: vt_seen
  interface
    subroutine vt_init() bind(C, name="vt_init")
    end subroutine
    subroutine vt_base() bind(C, name="vt_base")
    end subroutine
    subroutine vt_mal_begin() bind(C, name="vt_mal_begin")
    end subroutine
    subroutine vt_mal_end(op) bind(C, name="vt_mal_end")
      import
      character(kind=C_CHAR) :: op(*)
    end subroutine
    subroutine vt_status_f(op, val, a0, o0, a1, o1) bind(C, name="vt_status_f")
      import
      character(kind=C_CHAR) :: op(*)
      integer(C_LONG), value :: val
      integer(C_INT), value :: a0, o0, a1, o1
    end subroutine
  end interface
end module vt_c

program drv
  use iso_c_binding
  use vt_c
  use own_mod
  implicit none
  type(thing) :: h(0:1)
  type(OWN_SHROUD_capsule), allocatable :: cap
  integer(C_INT), pointer :: arr(:)
  integer(C_INT) :: vec(3)
  integer(C_INT), allocatable :: avec(:)
  character(len=:), allocatable :: str
  character(len=32) :: op
  integer :: i, s, t, id, n, k
  integer(C_LONG) :: val
  call vt_init()
  call vt_base()
  call status('init', 0_C_LONG)
  do i = 1, command_argument_count()
    call get_command_argument(i, op)
    val = 0
    s = 0
    id = 0
    if (len_trim(op) >= 2) s = ichar(op(2:2)) - ichar('0')
    n = index(op, ':')
    if (n > 0) read(op(n+1:), *) id
    select case (op(1:1))
    case ('c')
      h(s) = thing(int(id, C_INT))
    case ('m')
      val = h(s)%id()
    case ('k')
      h(s) = make(int(id, C_INT))
    case ('b')
      h(s) = borrow()
    case ('v')
      h(s) = byvalue(int(id, C_INT))
    case ('d')
      call h(s)%dtor()
    case ('y')
      t = ichar(op(3:3)) - ichar('0')
      h(t) = h(s)
    case ('S')
      select case (op(2:2))
      case ('N')
        str = name()
      case ('R')
        str = nameref()
      case ('C')
        str = nameptr_c()
      case ('L')
        str = nameptr_l()
      case ('E')
        str = empty_name()
      case ('F')
        str = empty_ptr_c()
      end select
      val = len(str) * 1000 + len_trim(str)
      deallocate(str)
    case ('A')
      select case (op(2:2))
      case ('n')
        if (allocated(cap)) deallocate(cap)
        allocate(cap)
        arr => new_array(int(id, C_INT), cap)
        val = size(arr)
      case ('p')
        if (allocated(cap)) deallocate(cap)
        allocate(cap)
        arr => pool_get(int(id, C_INT), cap)
        val = size(arr)
      case ('l')
        arr => lib_array(int(id, C_INT))
        val = size(arr)
      case ('x')   ! finalisation
        if (allocated(cap)) deallocate(cap)
      case ('d')   ! explicit release; the capsule variable stays
        if (allocated(cap)) call cap%delete()
      end select
    case ('B')   ! a second result through a capsule variable that still holds one: intent(out) finalises the first
      if (.not. allocated(cap)) allocate(cap)
      if (op(2:2) == 'n') then
        arr => new_array(int(id, C_INT), cap)
      else
        arr => pool_get(int(id, C_INT), cap)
      end if
      val = size(arr)
#ifndef VT_CFI
    case ('V')
      if (op(2:2) == 'f') then
        vec = 0
        call fill_vec(vec)
        val = vec(1) * 100 + vec(2) * 10 + vec(3)
      else
        avec = ret_vec()
        val = avec(1) * 100 + avec(2) * 10 + avec(3)
        deallocate(avec)
      end if
#endif
    case ('T')
      vt_seen = -1
      call vt_mal_begin()   ! blocks the wrapper allocates for its temporaries must be gone when it returns
      select case (op(2:2))
      case ('s')
        call take_str('hello world, this is a long argument     ')
        vt_seen = 0
      case ('c')
        call take_cstr('plain')
        vt_seen = 0
#ifndef VT_CFI
      case ('n')
        call names_case(id)
#endif
      case ('m')
        call mod_case(id, val)
      case ('o')
        call out_case(id, val)
      case ('g')
        call grow_case(id, val)
      case ('l')
        call label_case(id, val)
#ifndef VT_CFI
      case ('v')
        call vec_case(id)
      case ('f')
        call fill_case(id, val)
      case ('w')
        call vecstr_case(id)
#endif
      end select
      call vt_mal_end(trim(op) // C_NULL_CHAR)
      if (op(2:2) /= 'm' .and. op(2:2) /= 'o' .and. op(2:2) /= 'g' .and. op(2:2) /= 'f' .and. op(2:2) /= 'l') val = vt_seen
    end select
    call status(trim(op), val)
  end do
  if (allocated(cap)) deallocate(cap)   ! the driver's own allocation
contains
  subroutine status(name, v)
    character(len=*), intent(in) :: name
    integer(C_LONG), intent(in) :: v
    integer(C_INT) :: a0, a1
    a0 = 0
    a1 = 0
    if (c_associated(h(0)%cxxmem%addr)) a0 = 1
    if (c_associated(h(1)%cxxmem%addr)) a1 = 1
    call vt_status_f(name // C_NULL_CHAR, v, a0, h(0)%cxxmem%idtor, a1, h(1)%cxxmem%idtor)
  end subroutine
#ifndef VT_CFI
  subroutine names_case(n)
    integer, intent(in) :: n
    character(len=n) :: names(2)
    names(1) = 'ab'
    names(2) = 'c'
    call take_names(names)
  end subroutine
#endif
#ifndef VT_CFI
  subroutine vecstr_case(n)
    integer, intent(in) :: n
    character(len=n) :: names(2)
    names(1) = 'ab'
    names(2) = 'c'
    call take_vec_str(names)
  end subroutine
#endif
  subroutine mod_case(n, v)
    integer, intent(in) :: n
    integer(C_LONG), intent(out) :: v
    character(len=n) :: sv
    integer :: k
    sv = 'dog'
    call mod_str(sv)
    v = vt_seen * 1000
    do k = 1, n
      if (sv(k:k) /= ' ') v = v + 1
    end do
  end subroutine
  subroutine label_case(n, v)
    integer, intent(in) :: n
    integer(C_LONG), intent(out) :: v
    character(len=40) :: lab
    integer :: k
    lab = repeat('#', 40)
    lab = make_label(int(n, C_INT))
    v = 0
    do k = 1, 40
      if (lab(k:k) == 'L') then
        v = v + 1
      else if (lab(k:k) /= ' ') then
        v = v + 100
      end if
    end do
  end subroutine
  subroutine grow_case(n, v)
    integer, intent(in) :: n
    integer(C_LONG), intent(out) :: v
    character(len=n) :: sv
    integer :: k
    sv = 'ab'
    call grow_cstr(sv)
    v = vt_seen * 1000
    do k = 1, n
      if (sv(k:k) /= ' ') v = v + 1
    end do
  end subroutine
  subroutine out_case(n, v)
    integer, intent(in) :: n
    integer(C_LONG), intent(out) :: v
    character(len=n) :: sv
    integer :: k
    call out_cstr(sv)
    v = 0
    do k = 1, n
      if (sv(k:k) /= ' ') v = v + 1
    end do
  end subroutine
#ifndef VT_CFI
  subroutine fill_case(n, val)
    ! the library produces n values, the caller passes a three-element section with a guard on either side
    integer, intent(in) :: n
    integer(C_LONG), intent(out) :: val
    integer(C_INT), allocatable :: g(:)
    allocate(g(5))
    g = [7, 0, 0, 0, 7]
    call fill_vec_n(int(n, C_INT), g(2:4))
    val = g(1) * 10000 + g(2) * 1000 + g(3) * 100 + g(4) * 10 + g(5)
    deallocate(g)
  end subroutine
  subroutine vec_case(n)
    integer, intent(in) :: n
    integer(C_INT) :: v(n)
    integer :: k
    do k = 1, n
      v(k) = k - 1
    end do
    call take_vec(v)
  end subroutine
#endif
end program drv
"""

# ---------------------------------------------------------------- the reference model
class M(object):
    """Model state: handle slots, pending contexts, live object ids and counters."""

    def __init__(self):
        self.h = [None, None]  # None | dict(id, owner in 'caller'|'library', alias=bool, dtored=bool)
        self.s = None  # pending string context: None | 'N' | 'R' | 'C' | 'L'
        self.a = None  # pending array context: None | 'n' | 'l'
        self.v = None  # pending vector context: None | 'f'
        self.live = [900]  # ids of live objects; 900 is the object the library owns
        self.ctor = 0
        self.dtor = 0
        self.stale = set()  # slots whose object was released through another handle

    def clone(self):
        m = M()
        m.h = [dict(x) if x else None for x in self.h]
        m.s, m.a, m.v = self.s, self.a, self.v
        m.live = list(self.live)
        m.ctor, m.dtor = self.ctor, self.dtor
        m.stale = set(self.stale)
        return m

    def key(self):
        def hk(x):
            return None if x is None else (x["owner"], x["id"] if x["owner"] != "library" else 900, x.get("dtored", False), x.get("alias", False))
        # ids are abstracted to "which slot created it"; counters are not part of the state
        return (hk(self.h[0]), hk(self.h[1]), self.s, self.a, self.v, tuple(sorted(self.live)), tuple(sorted(self.stale)))


IDS = {0: 5, 1: 7}
# stateless calls whose wrappers build temporaries: op -> value the driver must report
TEMP_VALS = {"Tn:1": 101, "Tn:4": 201, "Tm:1": 1001, "Tm:3": 3003, "Tm:8": 3006, "To:20": 11, "To:32": 11, "Tg:5": 2005, "Tg:9": 2005,
             "Tv:0": 0, "Tv:3": 3, "Tw:1": 201, "Tw:4": 201, "Tl:0": 0, "Tl:5": 5, "Tl:40": 40, "Tl:64": 40, "Tf:0": 70007, "Tf:2": 71207, "Tf:3": 71237, "Tf:5": 71237}
TEMP_OPS = sorted(TEMP_VALS)


def enabled(m):
    """Operations whose precondition holds in model state m (caller errors are outside the property)."""
    ops = []
    for s in (0, 1):
        x = m.h[s]
        if x is None:
            ops += ["c%d:%d" % (s, IDS[s]), "k%d:%d" % (s, IDS[s]), "b%d" % s, "v%d:%d" % (s, IDS[s])]
            ops.append("r%d" % s)  # releasing an empty / already released handle does nothing
        else:
            if s not in m.stale:
                if not x.get("dtored"):
                    ops.append("m%d" % s)
                ops.append("r%d" % s)
                if x["owner"] == "caller" and not x.get("dtored") and not x.get("alias") and not any(
                        (m.h[t] or {}).get("alias") for t in (0, 1) if t != s):
                    ops.append("d%d" % s)  # explicit destructor call on an object the caller owns
                t = 1 - s
                if m.h[t] is None and not x.get("dtored") and not x.get("alias"):
                    ops.append("y%d%d" % (s, t))
    if m.s is None:
        ops += ["SN", "SR", "SC", "SL", "SE", "SF"]
    else:
        ops.append("Sx")
    if m.a is None:
        ops += ["An:3", "Al:3", "An:0", "Ap:3"]
    ops.append("Ax")  # releasing an empty / already released context does nothing
    if m.v is None:
        ops += ["Vf", "Vr"]
    else:
        ops.append("Vx")
    ops += ["Ts", "Tc"] + TEMP_OPS
    return ops


def step(m, op):
    """Apply op to a copy of m; returns (new model, expected val)."""
    m = m.clone()
    val = 0
    k = op[0]
    if k in "cmkbvrdy":
        s = int(op[1])
    ident = int(op.split(":")[1]) if ":" in op else 0
    if k == "c" or k == "k" or k == "v":
        m.h[s] = {"id": ident, "owner": "caller"}
        m.live.append(ident)
        m.ctor += 1
    elif k == "b":
        m.h[s] = {"id": 900, "owner": "library"}
    elif k == "m":
        val = m.h[s]["id"]
    elif k == "d":
        x = m.h[s]
        m.live.remove(x["id"])
        m.dtor += 1
        x["dtored"] = True
    elif k == "r":
        x = m.h[s]
        if x is not None:
            if x["owner"] == "caller" and not x.get("dtored"):
                m.live.remove(x["id"])
                m.dtor += 1
                for t in (0, 1):
                    if t != s and m.h[t] is not None and m.h[t]["id"] == x["id"] and m.h[t]["owner"] == "caller":
                        m.stale.add(t)
            m.h[s] = None
    elif k == "y":
        t = int(op[2])
        m.h[t] = dict(m.h[s])
        m.h[t]["alias"] = True
    elif k == "S":
        if op[1] == "x":
            n = {"N": 59, "R": 69, "C": 68, "L": 69, "E": 0, "F": 0}[m.s]
            val = n * 1000 + n
            m.s = None
        else:
            m.s = op[1]
    elif k == "A":
        if op[1] == "x":
            m.a = None
        else:
            m.a = op[1]
            val = ident
    elif k == "T":
        val = TEMP_VALS.get(op, 0)
    elif k == "V":
        if op[1] == "x":
            val = 456
            m.v = None
        else:
            m.v = "f"
            val = 3
    return m, val


def expected_line(m, op, val):
    """The ST line the driver must print in model state m after op."""
    live = ",".join(str(i) for i in sorted(m.live))
    # C++ heap blocks owned by the caller right now
    cxx = 0
    seen = set()
    for s in (0, 1):
        x = m.h[s]
        if x and x["owner"] == "caller" and not x.get("dtored") and s not in m.stale and x["id"] not in seen:
            seen.add(x["id"])
            cxx += 1
    # while a fetched string / vector waits to be copied out, how many blocks the wrapper holds for it is its own
    # business: at least one when the caller owns the C++ object, any number otherwise; exact again once it is released
    pending = m.s is not None or m.v is not None
    if m.s in ("N", "C", "E", "F"):
        cxx += 1
    if m.v == "f":
        cxx += 1
    mal = 1 if m.a == "n" else 0
    pool = 1 if m.a == "p" else 0
    hs = []
    for s in (0, 1):
        x = m.h[s]
        if x is None:
            hs.append("h%d=0/0" % s)
        elif x.get("dtored"):
            hs.append("h%d=0/0" % s)
        else:
            hs.append("h%d=1/%d" % (s, 1 if x["owner"] == "caller" else 0))
    sidt = {"N": 1, "C": 1, "R": 0, "L": 0, "E": 1, "F": 1}
    sfield = "s=%d/%d" % (1 if m.s else 0, sidt[m.s] if m.s else 0)
    afield = "a=%d/%d" % (1 if m.a else 0, 1 if m.a in ("n", "p") else 0)
    vfield = "v=%d/%d" % (1 if m.v else 0, 1 if m.v else 0)
    return "ST %s val=%d live=%s net=%d dd=0 libfree=0 pool=%d cxx%s%d mal=%d %s %s %s %s" % (
        op, val, live, m.ctor - m.dtor, pool, ">=" if pending else "=", cxx, mal, " ".join(hs), sfield, afield, vfield)


def line_matches(got, want):
    """Token-wise equality; a 'cxx>=N' expectation accepts any 'cxx=K' with K >= N."""
    if got == want:
        return True
    g, w = got.split(" "), want.split(" ")
    if len(g) != len(w):
        return False
    for a, b in zip(g, w):
        if a == b:
            continue
        if b.startswith("cxx>=") and a.startswith("cxx=") and a[4:].lstrip("-").isdigit() and int(a[4:]) >= int(b[5:]):
            continue
        return False
    return True


def trace_matches(got, want):
    return len(got) == len(want) and all(line_matches(g, w) for g, w in zip(got, want))


# ---------------------------------------------------------------- the Python front end
PY_UNSUPPORTED = ("takeVecStr", "byvalue", "makeLabel")  # do not generate / compile for Python at all: property C05's subject
PYDRIVER = r"""
import ctypes, gc, sys
import own
L = ctypes.CDLL(own.__file__)
L.vt_status_f.argtypes = [ctypes.c_char_p, ctypes.c_long] + [ctypes.c_int] * 4
L.vt_init(); L.vt_base()
mal = ctypes.c_long.in_dll(L, "vt_mal_live")
cnt = ctypes.c_int.in_dll(L, "vt_count_malloc")
seen = ctypes.c_long.in_dll(L, "vt_seen")
h = [None, None]
def status(op, val):
    gc.collect()
    sys.stdout.flush()
    L.vt_status_f(op.encode(), val, 0, 0, 0, 0)
    print("MAL %d" % mal.value); sys.stdout.flush()
status("init", 0)
for op in sys.argv[1:]:
    val = 0
    k = op[0]
    s = int(op[1]) if len(op) > 1 and op[1].isdigit() else 0
    ident = int(op.split(":")[1]) if ":" in op else 0
    cnt.value = 1
    if k == "c": h[s] = own.Thing(ident)
    elif k == "k": h[s] = own.make(ident)
    elif k == "b": h[s] = own.borrow()
    elif k == "m": val = h[s].id()
    elif k == "y": h[int(op[2])] = h[s]
    elif k == "r": h[s] = None
    elif k == "S":
        r = {"N": own.name, "R": own.nameref, "C": own.nameptrC, "L": own.nameptrL, "E": own.emptyName, "F": own.emptyPtrC}[op[1]]()
        val = len(r) * 1000 + len(r)
        del r
    elif k == "A":
        r = {"n": own.newArray, "l": own.libArray, "p": own.poolGet}[op[1]](ident)
        val = len(r)
        del r
    elif k == "V":
        r = own.fillVec() if op[1] == "f" else own.retVec()
        val = r[0] * 100 + r[1] * 10 + r[2]
        del r
    elif k == "T":
        seen.value = -1
        if op[1] == "s": own.takeStr("hello world, this is a long argument"); seen.value = 0
        elif op[1] == "c": own.takeCstr("plain"); seen.value = 0
        elif op[1] == "n": own.takeNames(["ab"[:ident], "c"[:ident]])
        elif op[1] == "q":
            # a list with None in it (an absent name), and lists with an element that is no string before / between strings
            try:
                own.takeNames([["ab", None], [None, "c"], ["ab", 5, "c"], [7, "ab", "c"], ["ab", "c", 5.5]][ident - 1])
            except (TypeError, ValueError):
                seen.value = -2
        elif op[1] == "m": r = own.modStr("dog"[:ident]); seen.value = 0
        elif op[1] == "o": r = own.outCstr(); seen.value = 0
        elif op[1] == "v": own.takeVec(list(range(ident)))
        elif op[1] == "e":
            # two converted arguments: both fine, the later one with a bad element, the later one not a sequence
            big = list(range(200))
            try:
                seen.value = own.dotTwo(big, [1, 2, 3] if ident == 1 else ["x"] if ident == 2 else 7)
            except (TypeError, ValueError):
                seen.value = -2
        val = seen.value
    cnt.value = 0
    status(op, val)
"""


def py_enabled(m):
    """m: (slot -> object index or None, objects [(id, owner)])"""
    slots, objs = m
    ops = []
    for s_ in (0, 1):
        if slots[s_] is None:
            ops += ["c%d:%d" % (s_, IDS[s_]), "k%d:%d" % (s_, IDS[s_]), "b%d" % s_]
        else:
            ops += ["m%d" % s_, "r%d" % s_]
            if slots[1 - s_] is None:
                ops.append("y%d%d" % (s_, 1 - s_))
    ops += ["SN", "SR", "SC", "SL", "SE", "SF", "An:3", "An:0", "Al:3", "Ap:3", "Vf", "Vr", "Ts", "Tc", "Tn:1", "Tn:4", "Tm:3", "To:20", "Tv:0", "Tv:3", "Te:1", "Te:2", "Te:3", "Tq:1", "Tq:2", "Tq:3", "Tq:4", "Tq:5"]
    return ops


def py_step(m, op):
    slots, objs = list(m[0]), list(m[1])
    k = op[0]
    if k in "ckb":
        s_ = int(op[1])
        objs.append((int(op.split(":")[1]) if ":" in op else 900, "library" if k == "b" else "caller"))
        slots[s_] = len(objs) - 1
    elif k == "y":
        slots[int(op[2])] = slots[int(op[1])]
    elif k == "r":
        slots[int(op[1])] = None
    return (tuple(slots), tuple(objs))


def py_expect(m):
    """(sorted live ids, caller-owned C++ blocks) the ownership model allows after the state m"""
    slots, objs = m
    held = set(i for i in slots if i is not None)
    live = sorted([900] + [objs[i][0] for i in held if objs[i][1] == "caller"])
    return live, len([i for i in held if objs[i][1] == "caller"])


def py_key(m):
    slots, objs = m
    return tuple(None if i is None else objs[i] for i in slots) + (slots[0] is not None and slots[0] == slots[1],)


def build_python(ctx):
    import sysconfig
    wd = ctx.subdir("pybuild")
    y = yaml.safe_load(YAML)
    y["options"] = {"wrap_python": True, "wrap_lua": False, "wrap_c": False, "wrap_fortran": False, "PY_array_arg": "list"}
    y["declarations"] = [d for d in y["declarations"] if not any(u in d["decl"] for u in PY_UNSUPPORTED)]
    r, tree = gen.gen_tree(wd, y, keep=True)
    if r.status != "ok":
        raise build.BuildError("generate python", "%s %s" % (r.exc, (r.msg or "")[:300]))
    out = os.path.join(wd, "out")
    open(os.path.join(out, "own.hpp"), "w").write(HPP)
    open(os.path.join(out, "subject.cpp"), "w").write(CPP)
    open(os.path.join(out, "pydriver.py"), "w").write(PYDRIVER)
    objs = []
    for src in sorted(f for f in os.listdir(out) if f.endswith(".cpp")):
        o = src[:-4] + "_py.o"
        rc, so, se = build.sh(["g++", "-std=c++11", "-g", "-O0", "-w", "-fPIC", "-I.", "-I" + sysconfig.get_paths()["include"], "-c", src, "-o", o], out)
        if rc != 0:
            raise build.BuildError("compile %s" % src, se[:800])
        objs.append(o)
    rc, so, se = build.sh(["g++", "-shared", "-o", "own.so"] + objs + ["-Wl,--wrap=malloc,--wrap=free,--wrap=strdup,--wrap=calloc"], out)
    if rc != 0:
        raise build.BuildError("link python", se[:800])
    return out


def run_py_history(args):
    out, hist = args
    env = dict(os.environ, PYTHONDONTWRITEBYTECODE="1")
    rc, so, se = build.sh(["/venv/bin/python", "pydriver.py"] + list(hist), out, env=env, timeout=120)
    st = [l for l in so.split("\n") if l.startswith("ST ")]
    ml = [int(l.split()[1]) for l in so.split("\n") if l.startswith("MAL ")]
    return rc, st, ml, (se or "")[-500:]


def python_front_end(ctx, quick):
    import re
    try:
        out = build_python(ctx)
    except build.BuildError as e:
        ctx.violation("python build", "the ownership library's Python extension does not build: %s" % e, {"kind": "python-build"})
        return
    depth = 3 if quick else 4
    init = ((None, None), ())
    seen = {py_key(init): ()}
    frontier = collections.deque([((), init)])
    hists = []
    while frontier:
        hist, m = frontier.popleft()
        if len(hist) >= depth:
            continue
        for op in py_enabled(m):
            stateless = op[0] in "SAVT"
            if stateless and len(hist) >= 2 and any(h[0] in "SAVT" for h in hist):
                continue
            nh = hist + (op,)
            hists.append(nh)
            m2 = py_step(m, op)
            k = py_key(m2)
            if k not in seen:
                seen[k] = nh
                frontier.append((nh, m2))
    res = isolate.pmap(run_py_history, [(out, h) for h in hists], ctx.workers, chunksize=8)
    for hist, (rc, st, ml, se) in zip(hists, res):
        if rc != 0 or len(st) != len(hist) + 1:
            ctx.violation("python crash %s" % " ".join(hist[-2:]), "Python history %s: the interpreter exited %d after %d of %d steps: %s" % (
                " ".join(hist), rc, max(len(st) - 1, 0), len(hist), se[-300:]), {"kind": "python", "history": list(hist)})
            continue
        m = init
        for i, op in enumerate(("init",) + hist):
            if i:
                m = py_step(m, op)
            line = st[i]
            f = dict(x.split("=", 1) for x in line.split()[2:] if "=" in x)
            got_live = sorted(int(x) for x in f["live"].split(",") if x)
            exp_live, exp_cxx = py_expect(m)
            done = hist[:i]
            problems = []
            if f["dd"] != "0":
                problems.append(("double-destruction", "an object was destroyed twice"))
            if f["libfree"] != "0":
                problems.append(("library-object-destroyed", "the library's own object was destroyed"))
            early = [x for x in exp_live if x not in got_live]
            if early:
                problems.append(("early-release", "object(s) %s destroyed while a Python reference is still held" % early))
            late = list(got_live)
            for x in exp_live:
                if x in late:
                    late.remove(x)
            if late:
                problems.append(("object-not-released", "object(s) %s still alive after the last Python reference was dropped" % late))
            extra = int(f["cxx"]) - exp_cxx - len(late)
            if extra > 0:
                kind = "owned-string-result-not-released" if any(o in ("SC", "SF") for o in done) else "cxx-leak"
                problems.append((kind, "%d C++ heap block(s) more than the caller owns" % extra))
            elif extra < 0:
                problems.append(("cxx-over-release", "%d C++ heap block(s) fewer than the caller owns" % -extra))
            if int(f["pool"]) != 0:
                problems.append(("pool-result-not-released" if any(o.startswith("Ap") for o in done) else "pool-leak", "%s pool slab(s) outstanding" % f["pool"]))
            if ml[i] != 0:
                problems.append(("malloc-result-not-released" if any(o.startswith("An") for o in done) else "temporary-not-freed",
                                 "%d malloc block(s) allocated by the wrappers are outstanding" % ml[i]))
            for kind, what in problems:
                ctx.violation("python %s" % kind, "Python history %s, after step %d (%s): %s   [%s]" % (" ".join(hist), i, op, what, line),
                              {"kind": "python", "history": list(hist), "step": i})
            if problems:
                break
    ctx.part("python", depth=depth, model_states=len(seen), histories=len(hists))
    ctx.count(states=len(seen), transitions=len(hists), validated=len(hists))

# ---------------------------------------------------------------- Python: buffers the wrapper allocates for intent(out) arrays
EXTENTS = ["n", "n+2", "2*n+1", "n-1", "n*m", "n+m", "(n+1)*2"]


def python_out_extent_case(args):
    """A wrapper that allocates the buffer of an intent(out) array gives the library as many elements as the dimension says, for
    every extent expression, element type and language: the library checks the usable size of the block it is handed."""
    workdir, lang = args
    import sysconfig

    types = ["int", "double", "short"]
    decls, hdr, src = [], ["#include <stddef.h>"], ["#include <stdlib.h>", "#include <malloc.h>", '#include "ext.h"', "long vt_short = 0;",
                                                      "long shortBy(void) { long v = vt_short; vt_short = 0; return v; }"]
    hdr.append("long shortBy(void);")
    decls.append({"decl": "long shortBy(void)"})
    calls = []
    for ti, t in enumerate(types):
        for ei, e in enumerate(EXTENTS):
            name = "fill_%d_%d" % (ti, ei)
            d = "void %s(int n, int m, %s *out +intent(out)+dimension(%s))" % (name, t, e)
            decls.append({"decl": d})
            hdr.append("void %s(int n, int m, %s *out);" % (name, t))
            src.append("void %s(int n, int m, %s *out) { long need = (long) sizeof(%s) * (%s); long have = (long) malloc_usable_size(out);"
                       " if (have < need) vt_short += need - have; else for (long k = 0; k < (%s); k++) out[k] = (%s) (k + 1); }" % (name, t, t, e, e, t))
            calls.append((name, t, e))
    y = {"library": "ext", "cxx_header": "ext.h", "options": {"wrap_c": False, "wrap_fortran": False, "wrap_lua": False, "wrap_python": True, "PY_array_arg": "list"},
         "declarations": decls}
    if lang == "c":
        y["language"] = "c"
    os.makedirs(workdir)
    r, tree = gen.gen_tree(workdir, y, keep=True)
    if r.status != "ok":
        shutil.rmtree(workdir, ignore_errors=True)
        return [("python out-extent generate %s" % lang, "generation failed: %s %s" % (r.exc, (r.msg or "")[:300]))], 0
    out = os.path.join(workdir, "out")
    ext = "c" if lang == "c" else "cpp"
    open(os.path.join(out, "ext.h"), "w").write("\n".join(hdr) + "\n")
    open(os.path.join(out, "subject." + ext), "w").write("\n".join(src) + "\n")
    drv = ["import ext"]
    exp = []
    for name, t, e in calls:
        for n, m in ((1, 1), (3, 2), (5, 4), (8, 1)):
            cnt = eval(e, {"n": n, "m": m})
            drv.append("r = ext.%s(%d, %d); print('OBS %s %d %d', ext.shortBy(), len(r), r[:2])" % (name, n, m, name, n, m))
            first = [1, 2][:cnt] if t != "double" else [1.0, 2.0][:cnt]
            exp.append(("OBS %s %d %d" % (name, n, m), "0 %d %r" % (cnt, first), t, e))
    open(os.path.join(out, "driver.py"), "w").write("\n".join(drv) + "\n")
    errs = []
    try:
        csrc = sorted(f for f in os.listdir(out) if f.endswith("." + ext))
        objs = build.compile_c_family(out, csrc, lang, incs=[sysconfig.get_paths()["include"]], extra=["-fPIC"])
        rc, so, se = build.sh(["gcc" if lang == "c" else "g++", "-shared", "-o", "ext.so"] + objs, out)
        if rc != 0:
            raise build.BuildError("link", se[:800])
    except build.BuildError as e:
        shutil.rmtree(workdir, ignore_errors=True)
        return [("python out-extent build %s" % lang, str(e)[:900])], 0
    rc, so, se = build.sh(["/venv/bin/python", "driver.py"], out, env=dict(os.environ, PYTHONDONTWRITEBYTECODE="1"), timeout=120)
    got = {}
    for l in so.split("\n"):
        if l.startswith("OBS "):
            p_ = l.split(" ", 4)
            got[" ".join(p_[:4])] = p_[4] if len(p_) > 4 else ""
    if rc != 0:
        errs.append(("python out-extent run %s" % lang, "driver exit %d: %s" % (rc, (se or "")[-300:])))
    seen = set()
    for tag, want, t, e in exp:
        g = got.get(tag, "(missing)")
        if g != want and (t, e) not in seen:
            seen.add((t, e))
            what = "the wrapper's buffer is %s bytes short of" % g.split()[0] if g.split() and g.split()[0] not in ("0", "(missing)") else "got %r for" % g
            errs.append(("python out-extent %s dimension(%s) [%s]" % (t, e, lang), "%s: %s %s *out +intent(out)+dimension(%s): (bytes short, length, first values) expected %r" % (
                tag, what, t, e, want)))
    shutil.rmtree(workdir, ignore_errors=True)
    return errs, len(exp)


def python_out_extents(ctx):
    res = isolate.pmap(python_out_extent_case, [(os.path.join(ctx.subdir("pyext"), lang), lang) for lang in ("c", "cxx")], ctx.workers)
    n = 0
    for errs, k in res:
        n += k
        for key, msg in errs:
            ctx.violation(key, msg, {"kind": "python-out-extent"})
    ctx.part("python_out_extents", extents=EXTENTS, element_types=["int", "double", "short"], languages=["c", "cxx"], calls=n)
    ctx.count(transitions=n, validated=n)


# ---------------------------------------------------------------- the Fortran front end
def f_expand(m, op):
    """Model operations a Fortran-level operation stands for (results are fetched and released in one call)."""
    k = op[0]
    pre = []
    if k in "ckbv":
        x = m.h[int(op[1])]
        if x is not None:
            pre = ["r" + op[1]]  # overwriting a handle that owns nothing (destroyed or borrowed) is an assignment
    if k == "S":
        return [op, "Sx"]
    if op.startswith("Al"):
        return [op, "Ax"]
    if op == "Ad":
        return ["Ax"]
    if k == "B":
        return ["Ax", "A" + op[1:]]
    if k == "V":
        return [op, "Vx"]
    return pre + [op]


def f_enabled(m):
    ops = []
    for op in enabled(m):
        if op[0] == "r" or op in ("Sx", "Vx"):
            continue
        ops.append(op)
    for s_ in (0, 1):
        x = m.h[s_]
        if x is not None and s_ not in m.stale and (x.get("dtored") or x["owner"] == "library") and not x.get("alias"):
            ops += ["c%d:%d" % (s_, IDS[s_]), "k%d:%d" % (s_, IDS[s_]), "b%d" % s_, "v%d:%d" % (s_, IDS[s_])]
    ops.append("Ad")
    if m.a is not None:
        ops += ["Bn:3", "Bp:3"]  # the capsule variable is reused while it holds a block
    return ops


def f_step(m, op):
    val = 0
    seq = f_expand(m, op)
    for i, mop in enumerate(seq):
        m, v = step(m, mop)
        if not (op.startswith("Al") and i == 1) and not (mop[0] == "r" and i == 0 and len(seq) > 1):
            val = v
    if op in ("Ad", "Ax"):
        val = 0
    return m, val


def f_line(line):
    import re
    line = re.sub(r" mal=\S+", "", line)
    return re.sub(r" s=\S+ a=\S+ v=\S+$", "", line)


def f_model_trace(hist):
    m = M()
    lines = [f_line(expected_line(m, "init", 0))]
    for op in hist:
        m, val = f_step(m, op)
        lines.append(f_line(expected_line(m, op, val)))
    return m, lines


def build_drivers(ctx):
    wd = ctx.subdir("build")
    r, tree = gen.gen_tree(wd, yaml.safe_load(YAML), keep=True)
    if r.status != "ok":
        raise RuntimeError("shroud failed on the ownership library: %s" % r.msg)
    out = os.path.join(wd, "out")
    open(os.path.join(out, "own.hpp"), "w").write(HPP)
    open(os.path.join(out, "subject.cpp"), "w").write(CPP)
    open(os.path.join(out, "driver.c"), "w").write(DRIVER)
    open(os.path.join(out, "fdriver.f90"), "w").write(FDRIVER)
    gens = sorted(f for f in os.listdir(out) if f.endswith(".cpp") and f != "subject.cpp")
    exes = {}
    for tag, flags, link in (("plain", [], ["-Wl,--wrap=malloc,--wrap=free,--wrap=strdup,--wrap=calloc"]),
                             ("asan", ["-DVT_ASAN", "-fsanitize=address", "-fno-omit-frame-pointer"], ["-fsanitize=address"])):
        objs = []
        for s in gens + ["subject.cpp", "driver.c"]:
            o = "%s_%s.o" % (os.path.splitext(s)[0], tag)
            cc = ["g++", "-std=c++11"] if s.endswith(".cpp") else ["gcc", "-std=c99"]
            rc, so, se = build.sh(cc + ["-g", "-O0", "-w", "-I."] + flags + ["-c", s, "-o", o], out)
            if rc != 0:
                raise build.BuildError("compile %s" % s, se[:800])
            objs.append(o)
        rc, so, se = build.sh(["g++", "-o", "drv_" + tag] + objs + link, out)
        if rc != 0:
            raise build.BuildError("link", se[:800])
        exes[tag] = os.path.join(out, "drv_" + tag)
        # the Fortran front end: generated module + interpreter driver, same subject objects
        fobjs = []
        for src in ("wrapfown.f", "fdriver.f90"):
            o = "%s_%s.o" % (os.path.splitext(src)[0], tag)
            rc, so, se = build.sh(["gfortran", "-cpp", "-ffree-form", "-ffree-line-length-none", "-g", "-O0", "-w"] + [f for f in flags if f.startswith("-f")] + ["-c", src, "-o", o], out)
            if rc != 0:
                raise build.BuildError("compile %s" % src, se[:800])
            fobjs.append(o)
        rc, so, se = build.sh(["gfortran", "-o", "fdrv_" + tag] + fobjs + [o for o in objs if not o.startswith("driver")] + ["-lstdc++"] + link, out)
        if rc != 0:
            raise build.BuildError("link fortran", se[:800])
        exes["f" + tag] = os.path.join(out, "fdrv_" + tag)
    # the same module generated with F_CFI (std::vector does not generate under F_CFI: recorded under C05)
    y2 = yaml.safe_load(YAML)
    y2["options"]["F_CFI"] = True
    y2["declarations"] = [d for d in y2["declarations"] if "vector" not in d["decl"]]
    wd2 = ctx.subdir("build-cfi")
    r2, _ = gen.gen_tree(wd2, y2, keep=True)
    if r2.status == "ok":
        out2 = os.path.join(wd2, "out")
        open(os.path.join(out2, "own.hpp"), "w").write(HPP)
        open(os.path.join(out2, "subject.cpp"), "w").write(CPP)
        open(os.path.join(out2, "fdriver.f90"), "w").write(FDRIVER)
        objs = []
        for s_ in sorted(f for f in os.listdir(out2) if f.endswith(".cpp")):
            o = os.path.splitext(s_)[0] + ".o"
            rc, so, se = build.sh(["g++", "-std=c++11", "-g", "-O0", "-w", "-I.", "-c", s_, "-o", o], out2)
            if rc != 0:
                raise build.BuildError("compile (F_CFI) %s" % s_, se[:800])
            objs.append(o)
        for src in ("wrapfown.f", "fdriver.f90"):
            o = os.path.splitext(src)[0] + ".o"
            rc, so, se = build.sh(["gfortran", "-cpp", "-DVT_CFI", "-ffree-form", "-ffree-line-length-none", "-g", "-O0", "-w", "-c", src, "-o", o], out2)
            if rc != 0:
                raise build.BuildError("compile (F_CFI) %s" % src, se[:800])
            objs.append(o)
        rc, so, se = build.sh(["gfortran", "-o", "fdrv_cfi"] + objs + ["-lstdc++", "-Wl,--wrap=malloc,--wrap=free,--wrap=strdup,--wrap=calloc"], out2)
        if rc != 0:
            raise build.BuildError("link fortran (F_CFI)", se[:800])
        exes["fcfi"] = os.path.join(out2, "fdrv_cfi")
    return exes


def run_history(args):
    exe, hist, asan = args
    env = dict(os.environ, ASAN_OPTIONS="detect_leaks=1:exitcode=99:abort_on_error=0")
    rc, so, se = build.sh([exe] + list(hist), os.path.dirname(exe), env=env, timeout=60)
    # a positive balance: allocated inside the call and still there (a negative one is the Fortran runtime releasing an older block)
    leaks = [l for l in so.split("\n") if l.startswith("MAL ") and int(l.split()[-1]) > 0]
    if leaks and not asan:
        # malloc blocks a wrapper allocated for a temporary and did not free before it returned
        return 77, [l for l in so.split("\n") if l.startswith("ST ")], "TEMPORARY-NOT-FREED " + "; ".join(leaks)
    return rc, [l for l in so.split("\n") if l.startswith("ST ")], ((se or "")[:900] + (" ... " + se[-400:] if len(se or "") > 1300 else (se or "")[900:]))


def model_trace(hist):
    m = M()
    lines = [expected_line(m, "init", 0)]
    for op in hist:
        m, val = step(m, op)
        lines.append(expected_line(m, op, val))
    return m, lines


# ---------------------------------------------------------------- classes that share a bare name
SAME_YAML = """\
library: same
cxx_header: same.hpp
options:
  wrap_python: false
  wrap_lua: false
declarations:
- decl: namespace alpha
  declarations:
  - decl: class Item
    declarations:
    - decl: Item()
    - decl: ~Item()
    - decl: int weight()
- decl: namespace beta
  declarations:
  - decl: class Item
    declarations:
    - decl: Item()
    - decl: ~Item()
    - decl: int weight()
- decl: template<typename T> class Box
  cxx_template:
  - instantiation: <int>
  - instantiation: <double>
  declarations:
  - decl: Box()
  - decl: ~Box()
  - decl: int bytes()
- decl: int live(int which)
"""
SAME_HPP = r"""
#ifndef SAME_HPP
#define SAME_HPP
extern int vt_live[4];
namespace alpha { class Item { public: Item() { vt_live[0]++; } ~Item() { vt_live[0]--; } int weight() { return 1; } }; }
namespace beta { class Item { char pad[64]; public: Item() { vt_live[1]++; } ~Item() { vt_live[1]--; } int weight() { return 2; } }; }
template<typename T> struct vt_slot { enum { value = 2 }; };
template<> struct vt_slot<double> { enum { value = 3 }; };
template<typename T> class Box { T m; public: Box() : m(0) { vt_live[vt_slot<T>::value]++; } ~Box() { vt_live[vt_slot<T>::value]--; } int bytes() { return (int) sizeof(T); } };
int live(int which);
#endif
"""
SAME_CPP = r"""
#include "same.hpp"
int vt_live[4];
int live(int which) { return vt_live[which]; }
"""
SAME_DRIVER = r"""
#include <stdio.h>
#include <string.h>
@INCLUDES@
static SAM_alpha_Item a; static SAM_beta_Item b; static SAM_Box_int bi; static SAM_Box_double bd;
static void show(const char *op) { printf("ST %s %d %d %d %d\n", op, SAM_live(0), SAM_live(1), SAM_live(2), SAM_live(3)); }
int main(int argc, char **argv) {
  show("init");
  for (int i = 1; i < argc; i++) {
    const char *op = argv[i]; int k = op[1] - '0';
    if (op[0] == 'c') { if (k == 0) SAM_alpha_Item_ctor(&a); else if (k == 1) SAM_beta_Item_ctor(&b); else if (k == 2) SAM_Box_int_ctor(&bi); else SAM_Box_double_ctor(&bd); }
    else if (op[0] == 'r') { void *h = k == 0 ? (void *) &a : k == 1 ? (void *) &b : k == 2 ? (void *) &bi : (void *) &bd; SAM_SHROUD_memory_destructor((SAM_SHROUD_capsule_data *) h); }
    else if (op[0] == 'd') { if (k == 0) SAM_alpha_Item_dtor(&a); else if (k == 1) SAM_beta_Item_dtor(&b); else if (k == 2) SAM_Box_int_dtor(&bi); else SAM_Box_double_dtor(&bd); }
    else if (op[0] == 'w') { int w = k == 0 ? SAM_alpha_Item_weight(&a) : k == 1 ? SAM_beta_Item_weight(&b) : k == 2 ? SAM_Box_int_bytes(&bi) : SAM_Box_double_bytes(&bd); printf("W %d\n", w); }
    show(op);
  }
  return 0;
}
"""


def run_same(args):
    exe, seq = args
    env = dict(os.environ, ASAN_OPTIONS="detect_leaks=1:exitcode=99:abort_on_error=0")
    rc, so, se = build.sh([exe] + list(seq), os.path.dirname(exe), env=env, timeout=60)
    return rc, [l for l in so.split("\n") if l.startswith(("ST ", "W "))], (se or "")[:600]


def same_name_classes(ctx, quick):
    """Two classes called Item in different namespaces and two instantiations of one class template: each object is
    released by its own class's destructor, whichever way and in whichever order the handles are released."""
    wd = ctx.subdir("same")
    r, tree = gen.gen_tree(wd, yaml.safe_load(SAME_YAML), keep=True)
    if r.status != "ok":
        ctx.violation("same-name generate", "shroud failed on the same-name class library: %s" % r.msg, {"kind": "same"})
        return
    out = os.path.join(wd, "out")
    open(os.path.join(out, "same.hpp"), "w").write(SAME_HPP)
    open(os.path.join(out, "subject.cpp"), "w").write(SAME_CPP)
    incs = "\n".join('#include "%s"' % h for h in sorted(os.listdir(out)) if h.startswith("wrap") and h.endswith(".h"))
    open(os.path.join(out, "driver.c"), "w").write(SAME_DRIVER.replace("@INCLUDES@", incs))
    try:
        csrc = sorted(f for f in os.listdir(out) if f.endswith((".c", ".cpp")))
        objs = build.compile_c_family(out, csrc, "cxx", san=True)
        build.link(out, objs, "same", fortran=False, cxx=True, san=True)
    except build.BuildError as e:
        ctx.violation("same-name build", "the same-name class library does not build: %s" % str(e)[:600], {"kind": "same"})
        return
    exe = os.path.join(out, "same")
    seqs = []
    weight = [1, 2, 4, 8]
    for order in itertools.permutations(range(4)):
        for how in itertools.product("rd", repeat=4):
            if quick and (order[0] > order[-1]) and how.count("r") not in (0, 4):
                continue
            seqs.append(["c%d" % k for k in range(4)] + ["w%d" % k for k in range(4)] + ["%s%d" % (how[k], k) for k in order])
    # and with a subset of the classes alive
    for present in itertools.product([0, 1], repeat=4):
        ks = [k for k in range(4) if present[k]]
        if ks and len(ks) < 4:
            seqs.append(["c%d" % k for k in ks] + ["r%d" % k for k in reversed(ks)])
    res = isolate.pmap(run_same, [(exe, s_) for s_ in seqs], ctx.workers, chunksize=8)
    n = 0
    for seq, (rc, lines, se) in zip(seqs, res):
        live = [0, 0, 0, 0]
        exp = ["ST init 0 0 0 0"]
        for op in seq:
            k = int(op[1])
            if op[0] == "c":
                live[k] += 1
            elif op[0] in "rd":
                live[k] -= 1
            elif op[0] == "w":
                exp.append("W %d" % weight[k])
            exp.append("ST %s %d %d %d %d" % ((op,) + tuple(live)))
        n += len(seq)
        if rc != 0 or lines != exp:
            first = next((i for i, (g, e) in enumerate(zip(lines + ["(missing)"] * len(exp), exp)) if g != e), len(exp))
            ctx.violation("same-name classes %s" % (seq[first - 1] if 0 < first <= len(seq) else "exit"),
                          "classes sharing a bare name, history %s: %s (live objects of alpha::Item, beta::Item, Box<int>, Box<double>)%s" % (
                              " ".join(seq), "step %d gives %r, expected %r" % (first, (lines + ["(missing)"] * len(exp))[first] if first < len(exp) else "-", exp[first] if first < len(exp) else "-"),
                              (" exit %d: %s" % (rc, se[:300])) if rc else ""), {"kind": "same", "history": seq})
    ctx.count(states=len(seqs), transitions=n, validated=n)
    ctx.part("same_name_classes", histories=len(seqs), steps=n)


def run(ctx):
    quick = ctx.tier == "quick"
    depth = 4 if quick else 5
    try:
        exes = build_drivers(ctx)
    except build.BuildError as e:
        ctx.violation("build", "the ownership library's wrappers do not build: %s" % e, {"kind": "build"})
        ctx.count(states=1, transitions=1)
        return
    # breadth first over model states; every (state, op) transition is executed on the implementation
    init = M()
    seen = {init.key(): ()}
    frontier = collections.deque([()])
    transitions = []
    while frontier:
        hist = frontier.popleft()
        m, _ = model_trace(hist)
        if len(hist) >= depth:
            continue
        for op in enabled(m):
            nh = hist + (op,)
            transitions.append(nh)
            m2, _ = step(m, op)
            k = m2.key()
            if k not in seen:
                seen[k] = nh
                frontier.append(nh)
    # plus every history up to depth 3 without state merging (tests the merging itself)
    unmerged = []
    lvl = [()]
    for d in range(3):
        nxt = []
        for hist in lvl:
            m, _ = model_trace(hist)
            for op in enabled(m):
                if d >= 2 and op in TEMP_VALS and any(h in TEMP_VALS for h in hist):
                    continue  # stateless calls: all pairs, and every position of a depth-3 history, but not all triples
                nxt.append(hist + (op,))
        unmerged += nxt
        lvl = nxt
    allh = sorted(set(transitions) | set(unmerged), key=lambda h: (len(h), h))
    res = isolate.pmap(run_history, [(exes["plain"], h, False) for h in allh], ctx.workers, chunksize=16)
    nbad = 0
    for hist, (rc, got, se) in zip(allh, res):
        _, want = model_trace(hist)
        if rc != 0 or not trace_matches(got, want):
            nbad += 1
            diff = ""
            for i, w in enumerate(want):
                g = got[i] if i < len(got) else "(missing)"
                if not line_matches(g, w):
                    diff = "after %s:\n      got      %s\n      expected %s" % (" ".join(hist[:i]) or "(start)", g, w)
                    break
            ctx.violation("protocol %s" % key_for(hist, diff), "history %s: %s%s" % (" ".join(hist), diff or "exit %d" % rc, ("  stderr: " + se[-200:]) if rc else ""),
                          {"kind": "protocol", "history": list(hist)})
    # AddressSanitizer pass over the depth-<=3 histories and the BFS transitions (no instrumented allocator)
    ah = [h for h in allh if len(h) <= (3 if quick else 4)]
    ares = isolate.pmap(run_history, [(exes["asan"], h, True) for h in ah], ctx.workers, chunksize=8)
    for hist, (rc, got, se) in zip(ah, ares):
        # at the end of a history the caller may still own things: only memory errors count, leaks are
        # judged on histories that end in a quiescent model state
        m, _ = model_trace(hist)
        quiescent = m.live == [900] and m.s is None and m.a is None and m.v is None
        mem_error = rc != 0 and ("ERROR: AddressSanitizer" in se or "LeakSanitizer" not in se)
        leak = rc != 0 and "LeakSanitizer" in se and quiescent
        if mem_error or leak:
            ctx.violation("asan %s" % key_for(hist, se), "history %s under AddressSanitizer: %s" % (" ".join(hist), se[:700].replace("\n", " | ")),
                          {"kind": "asan", "history": list(hist)})
    # ---- the Fortran front end: the same model, driven through the generated module (finaliser, type-bound delete)
    fdepth = 3 if quick else 4
    fseen = {M().key(): ()}
    ffront = collections.deque([()])
    fh = []
    while ffront:
        hist = ffront.popleft()
        m, _ = f_model_trace(hist)
        if len(hist) >= fdepth:
            continue
        for op in f_enabled(m):
            if len(hist) >= 2 and op in TEMP_VALS and any(h in TEMP_VALS for h in hist):
                continue
            nh = hist + (op,)
            fh.append(nh)
            m2, _ = f_step(m, op)
            k = m2.key()
            if k not in fseen:
                fseen[k] = nh
                ffront.append(nh)
    # all Fortran histories to depth 3 without state merging ("released" and "never held" are one model state)
    lvl = [()]
    funm = []
    for d in range(3):
        nxt = []
        for hist in lvl:
            m, _ = f_model_trace(hist)
            for op in f_enabled(m):
                if op in TEMP_VALS and (d >= 1 and any(h in TEMP_VALS for h in hist) or d == 2):
                    continue
                nxt.append(hist + (op,))
        funm += nxt
        lvl = nxt
    fh = sorted(set(fh) | set(funm), key=lambda h: (len(h), h))
    fres = isolate.pmap(run_history, [(exes["fplain"], h, False) for h in fh], ctx.workers, chunksize=16)
    for hist, (rc, got, se) in zip(fh, fres):
        _, want = f_model_trace(hist)
        if rc != 0 or not trace_matches(got, want):
            diff = ""
            for i, w in enumerate(want):
                g = got[i] if i < len(got) else "(missing)"
                if not line_matches(g, w):
                    diff = "after %s:\n      got      %s\n      expected %s" % (" ".join(hist[:i + 0]) or "(start)", g, w)
                    break
            ctx.violation("fortran protocol %s" % key_for(hist, diff), "Fortran history %s: %s%s" % (" ".join(hist), diff or "exit %d" % rc, ("  stderr: " + se[-200:]) if rc else ""),
                          {"kind": "fortran", "history": list(hist)})
    # the same histories (without the vector operations) on the module generated with F_CFI
    if "fcfi" in exes:
        ch = [h for h in fh if not any(op[0] == "V" or op[:2] in ("Tv", "Tw", "Tf", "Tn", "Tl") for op in h)]  # char ** keeps a type(C_PTR) dummy under F_CFI; the user's c_buf statements (Tl) belong to the buffer wrapper
        cres = isolate.pmap(run_history, [(exes["fcfi"], h, False) for h in ch], ctx.workers, chunksize=16)
        for hist, (rc, got, se) in zip(ch, cres):
            _, want = f_model_trace(hist)
            if rc != 0 or not trace_matches(got, want):
                diff = ""
                first = "exit"
                for i, w in enumerate(want):
                    g = got[i] if i < len(got) else "(missing)"
                    if not line_matches(g, w):
                        diff = "after %s:\n      got      %s\n      expected %s" % (" ".join(hist[:i + 0]) or "(start)", g, w)
                        gf = dict(t.split("=", 1) for t in g.split() if "=" in t)
                        wf = dict(t.split("=", 1) for t in w.split() if "=" in t)
                        first = "%s fields=%s" % (hist[i - 1] if i else "init", ",".join(sorted(k for k in wf if gf.get(k) != wf[k])) or "line")
                        break
                # keyed by the operation after which the implementation first departs from the model
                ctx.violation("fortran F_CFI first departure at %s" % first, "Fortran history %s with F_CFI: %s%s" % (" ".join(hist), diff or "exit %d" % rc, ("  stderr: " + se[-200:]) if rc else ""),
                              {"kind": "fortran-cfi", "history": list(hist)})
        ctx.count(transitions=len(ch), validated=len(ch))
        ctx.part("fortran_cfi", transitions_executed=len(ch))
    fah = [h for h in fh if len(h) <= (2 if quick else 3)]
    fares = isolate.pmap(run_history, [(exes["fasan"], h, True) for h in fah], ctx.workers, chunksize=8)
    for hist, (rc, got, se) in zip(fah, fares):
        m, _ = f_model_trace(hist)
        quiescent = m.live == [900] and m.s is None and m.a is None and m.v is None
        mem_error = rc != 0 and ("ERROR: AddressSanitizer" in se or "LeakSanitizer" not in se)
        leak = rc != 0 and "LeakSanitizer" in se and quiescent
        if mem_error or leak:
            ctx.violation("fortran asan %s" % key_for(hist, se), "Fortran history %s under AddressSanitizer: %s" % (" ".join(hist), se[:700].replace("\n", " | ")),
                          {"kind": "fortran-asan", "history": list(hist)})
    python_front_end(ctx, quick)
    python_out_extents(ctx)
    same_name_classes(ctx, quick)
    ctx.part("fortran", depth=fdepth, model_states=len(fseen), transitions_executed=len(fh), asan_histories=len(fah))
    ctx.count(states=len(fseen), transitions=len(fh) + len(fah), validated=len(fh) + len(fah))
    ctx.count(states=len(seen), transitions=len(allh) + len(ah), validated=len(allh) + len(ah))
    ctx.nontrivial_n(len(allh))
    ctx.part("bfs", depth=depth, model_states=len(seen), transitions_executed=len(transitions), unmerged_histories_depth3=len(unmerged), asan_histories=len(ah))
    ctx.sample({"history": ["k0:5", "y01", "m1", "r0", "SN", "Sx"]})
    ctx.cov["rule"] = ("explicit-state BFS over the ownership model (two handle slots, pending string / array / vector contexts) to depth %d: every (state, operation) "
                      "transition whose precondition holds is executed on the generated C API by replaying the shortest history in a fresh process; after every step the "
                      "registry of live objects, construct/destruct counts, double-delete and library-free events, the C++ heap and malloc balances and the capsule fields "
                      "must equal the model; all histories to depth 3 also run unmerged; the same histories run under AddressSanitizer" % depth)
    ctx.cov["bounds"] = {"depth": depth, "slots": 2}
    ctx.assumptions += ["operations through a handle the model marks stale (released through an alias) are caller errors and are not generated",
                        "three driven seams: the C API (including the bufferify entry points), the generated Fortran module (class handles, capsule finaliser through deallocate, type-bound delete) and the CPython 3.12 extension (reference drop, aliases, list-mode results); the Python oracle is per counter, not a full trace",
                        "Fortran: gfortran's own run-time allocations make the malloc balance meaningless there; malloc'ed results are judged by LeakSanitizer on histories that end in a quiescent model state"]


def key_for(hist, text):
    return " ".join(hist[-2:]) if hist else "start"


def replay(ctx, path):
    with open(path) as fp:
        p = json.load(fp)["payload"]
    exes = build_drivers(ctx)
    rc, got, se = run_history((exes["plain"], p["history"], False))
    _, want = model_trace(tuple(p["history"]))
    for g, w in zip(got, want):
        print("got     ", g)
        print("expected", w)
    ctx.count(states=1, transitions=1)
