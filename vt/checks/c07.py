"""C07 - output is a pure, repeatable function of the inputs and command line.

Explicit-state exploration of in-process histories: every sequence (up to a depth bound) of
main_with_args calls over an alphabet of libraries chosen to collide on each process-wide
registry runs in one interpreter; the state after a history is the canonical hash of those
registries; the invariant, evaluated after every history, is that the last run's output
directory equals the output of the same library from a fresh interpreter.  Plus the other
dimensions: hash seeds, current directory, environment, dirty output directory, patched
clock / host / pid / random.
"""
from __future__ import annotations

import argparse
import hashlib
import itertools
import json
import os
import shutil
import subprocess
import sys

from .. import corpus, isolate, libs

TYPEMAP_LIB = """\
library: Fwd
cxx_header: fwd.hpp
options:
  wrap_python: true
typemap:
- type: tutorial::Class1
  fields:
    base: shadow
    wrap_header:
    - wrapClass1.h
    c_type: TUT_Class1
    f_module_name: tutorial_mod
    f_derived_type: class1
    f_capsule_data_type: SHROUD_class1_capsule
    f_to_c: "{f_var}%cxxmem"
    PY_PyTypeObject: PY_Class1_Type
    PY_to_object: PP_Class1_to_Object
    PY_from_object: PP_Class1_from_Object
declarations:
- decl: class Class2
  declarations:
  - decl: Class2()
  - decl: ~Class2()
  - decl: void func1(tutorial::Class1 *arg)
  - decl: const std::string &getName()
- decl: int passInt(int a)
"""

C_STRINGS = """\
library: Cstr
language: c
cxx_header: cstr.h
options:
  wrap_python: true
  PY_array_arg: list
declarations:
- decl: void takeName(const char *name)
- decl: void giveName(char *name +intent(out)+charlen(32))
- decl: char *makeName(void) +owner(caller)
- decl: int sum(const int *v +rank(1), int n +implied(size(v)))
- decl: void names(char **names +intent(in), int n +implied(size(names)))
- decl: struct Pt { double x; double y; };
- decl: Pt *newPt(void) +owner(caller)
"""

# several typedefs whose headers are the same / differ between C and C++: every collection of headers, typedefs
# and helpers built while writing the wrappers holds more than one element, so an unordered container shows
HDRS_LIB = """\
library: Hdrs
cxx_header: hdrs.hpp
options:
  wrap_python: false
  wrap_lua: false
declarations:
- decl: typedef int IndexType
  fields:
    c_header: index_type.h
    cxx_header: index_type.h
- decl: typedef long OffsetType
  fields:
    c_header: offset_type.h
    cxx_header: offset_type.h
- decl: typedef short TagType
  fields:
    c_header: tag_type.h
    cxx_header: tag_type.h
- decl: typedef double RealType
  fields:
    c_header: real_type.h
    cxx_header: real_type.hpp
- decl: OffsetType locate(IndexType idx, OffsetType base, TagType tag, RealType w)
  doxygen:
    brief: locate an entry
    description: |
      Two lines of description,
      the text ends with a newline.
    return: the offset
- decl: void fill(IndexType *idx +rank(1), int n +implied(size(idx)))
- decl: void scale(RealType *v +rank(1)+intent(inout), size_t n +implied(size(v)), int64_t by)
- decl: const std::string label(TagType tag, const std::string &prefix)
# names at and beyond what a Fortran name may hold (63 characters for c_<name> / c_<name>_bufferify): whatever is done
# about them is a function of the name alone
# both qualifiers on one declaration: the order they are written in is fixed
- decl: int poll(const volatile int *status, volatile int *flag, const volatile double level)
- decl: bool is_the_unstructured_mesh_partition_boundary_consistent_on_all(int rank)
- decl: bool is_the_unstructured_mesh_partition_boundary_consistent_on_rank(int rank)
- decl: void set_name_of_the_unstructured_mesh_partition_boundary_set(const std::string &name)
- decl: int a_function_with_a_name_that_is_longer_than_any_fortran_name_can_be_by_a_good_margin(const std::string &name, bool flag)
"""


def twin(lang):
    """The same declarations as a C and as a C++ library: both reach the same statement-table
    entries, including those whose clauses differ by language."""
    import yaml as _y

    from .. import atoms as A
    from . import c01

    fs = [f for f in c01.l1_funcs(1) if "c" in f.langs()]
    lib = A.Library("Twin" + ("c" if lang == "c" else "x"), fs, lang)
    d = lib.yaml({"wrap_python": False, "wrap_lua": False})
    d["declarations"] += [{"decl": "char lastLetter(void)"}, {"decl": "void shiftValues(int *values +intent(inout)+rank(1)+cdesc)"},
                          {"decl": "void *rawp(void *p)"}, {"decl": "int callb(int (*fn)(int))"}]
    return _y.safe_dump(d, sort_keys=False)


# the debugging dump <library>.json is an output file like any other; the .log file records absolute paths of the run
C07_SKIP = (".log",)


def guarded_small():
    """libs.SMALL_CXX once more, with the class under a preprocessor condition and literalinclude: the helper text made for a
    class then differs between two libraries that agree on every name."""
    import yaml as _y

    d = _y.safe_load(libs.SMALL_CXX)
    cls = d["declarations"][-1]["declarations"][-1]
    assert cls["decl"] == "class Thing"
    cls["cpp_if"] = "ifdef HAVE_THING"
    cls["options"] = {"literalinclude": True}
    return _y.safe_dump(d, sort_keys=False)


# a struct wrapped as a Python class: the generated constructor's parameters carry references to other nodes
STRUCT_CLASS = """\
library: Spt
language: c
cxx_header: spt.h
options:
  wrap_python: true
  wrap_lua: false
  PY_struct_arg: class
  PY_array_arg: list
  wrap_struct_as: class
declarations:
- decl: struct Point { int x; double y; int *ids +dimension(x); };
- decl: double norm(const Point *p)
- decl: void shift(Point *p +intent(inout), double by)
# a second struct that names the first as its base (class_baseclass): what is recorded for one struct stays with that struct
- decl: struct Point3 { int x; double y; int *ids +dimension(x); int z; };
  options:
    class_baseclass: Point
- decl: struct Plain { int first; int second; };
  options:
    wrap_struct_as: struct
"""


def spliced_small():
    """SMALL_CXX with user code for blocks that every library has (and for one of its own functions) in each language: a later
    library processed in the same interpreter has blocks of the same names and must keep its own generated text."""
    import yaml as _y
    d = _y.safe_load(libs.SMALL_CXX)
    d["splicer_code"] = {
        "c": {"CXX_definitions": ["// user code of library Small"], "function": {"add_one": ["return 4711;"]}},
        "f": {"module_top": ["integer, parameter :: SMALL_USER = 20"], "function": {"add_one": ["SHT_rv = 4711"]}},
        "py": {"function": {"add_one": ["return nullptr;  // user"]}},
        "lua": {"function": {"addOne": ["return 0;  // user"]}},
    }
    return _y.safe_dump(d, sort_keys=False)


ALPHABET = [
    ("small-spliced", spliced_small(), []),
    ("structclass", STRUCT_CLASS, []),
    ("csmall", libs.SMALL_C, []),
    ("small", libs.SMALL_CXX, []),
    ("small-guarded", guarded_small(), []),
    ("other", libs.OTHER_CXX, []),
    ("fwd", TYPEMAP_LIB, []),
    ("hdrs", HDRS_LIB, []),
    ("cstr", C_STRINGS, []),
    ("small-as-c-opts", libs.SMALL_CXX, ["--option", "F_CFI=true", "--option", "debug=true"]),
    ("twin-c", None, []),
    ("twin-cxx", None, []),
]


def ns_for(yaml_path, outdir, extra, every_output=False):
    """The argparse.Namespace the console entry point would build; every_output also asks for each optional file
    (--cfiles --ffiles --yaml-types --write-helpers --write-statements), all inside the output directory."""
    ap = argparse.ArgumentParser()
    ap.add_argument("--option", default=[], action="append")
    ap.add_argument("--language", default=None)
    a = ap.parse_args(extra)
    j = (lambda f: f) if every_output else (lambda f: "")  # the writers join these names with the output directory themselves
    return argparse.Namespace(
        outdir=outdir, outdir_c_fortran="", outdir_python="", outdir_lua="", outdir_yaml="", logdir=outdir,
        cfiles=j("cfiles.txt"), ffiles=j("ffiles.txt"), path=[], cmake="", write_helpers="helpers" if every_output else "",
        write_statements="statements.txt" if every_output else "", write_version=True,
        yaml_types=j("alltypes.yaml"), filename=[yaml_path], option=a.option, language=a.language)


def registry_state():
    """Canonical hash of the registries that outlive a run."""
    from shroud import statements, typemap, whelpers, wrapc

    def plain(x):
        if isinstance(x, dict):
            return {str(k): plain(v) for k, v in sorted(x.items(), key=lambda kv: str(kv[0]))}
        if isinstance(x, (list, tuple)):
            return [plain(v) for v in x]
        if isinstance(x, (str, int, float, bool)) or x is None:
            return x
        return type(x).__name__

    parts = {
        "types": sorted(getattr(typemap, "shared_typedict", {}).keys()),
        "fc_statements": plain(statements.fc_statements),
        "chelpers": plain(whelpers.CHelpers),
        "fhelpers": plain(whelpers.FHelpers),
        "capsule_code": plain(getattr(wrapc.Wrapc, "capsule_code", None)),
        "capsule_order": plain(getattr(wrapc.Wrapc, "capsule_order", None)),
        "capsule_include": plain(getattr(wrapc.Wrapc, "capsule_include", None)),
    }
    return hashlib.blake2b(json.dumps(parts, sort_keys=True).encode(), digest_size=8).hexdigest()


def run_history(args):
    """Child body: run the libraries of a history one after the other in this interpreter."""
    workdir, history, alphabet = args[:3]
    every = len(args) > 3 and args[3]
    import shroud.main

    state = None
    for step, li in enumerate(history):
        name, text, extra = alphabet[li]
        d = os.path.join(workdir, "s%d" % step)
        os.makedirs(os.path.join(d, "out"))
        with open(os.path.join(d, "lib.yaml"), "w") as fp:
            fp.write(text)
        os.chdir(d)
        shroud.main.main_with_args(ns_for("lib.yaml", "out", extra, every_output=every))
    state = registry_state()
    return state


def history_case(args):
    workdir, history, alphabet, fresh = args[:4]
    every = len(args) > 4 and args[4]
    os.makedirs(workdir)
    r = isolate.call_in_child(run_history, ((workdir, history, alphabet, every),), timeout=120)
    err = None
    state = None
    if r.status != "ok":
        err = "history failed: %s %s: %s at %s" % (r.status, r.exc, r.msg, r.site)
    else:
        state = r.value
        last = os.path.join(workdir, "s%d" % (len(history) - 1), "out")
        got = isolate.read_tree(last, skip_ext=C07_SKIP)
        want = fresh[history[-1]]
        if got != want:
            err = "\n".join(isolate.diff_trees(want, got, limit=2))
    shutil.rmtree(workdir, ignore_errors=True)
    return (history, state, err)


def fresh_output(args):
    workdir, name, text, extra = args[:4]
    every = len(args) > 4 and args[4]
    os.makedirs(os.path.join(workdir, "out"))
    with open(os.path.join(workdir, "lib.yaml"), "w") as fp:
        fp.write(text)
    r = isolate.call_in_child(run_history, ((workdir, [0], [(name, text, extra)], every),), timeout=120)
    if r.status != "ok":
        raise RuntimeError("fresh generation of %s failed: %s %s" % (name, r.exc, r.msg))
    tree = isolate.read_tree(os.path.join(workdir, "s0", "out"), skip_ext=C07_SKIP)
    shutil.rmtree(workdir, ignore_errors=True)
    return tree


# ---------------------------------------------------------------- other dimensions
def cli_run(args):
    """Real `python -m shroud.main` subprocess (fresh interpreter) -> tree."""
    workdir, text, extra, env_over, absolute, cwd_other, dirty, repo = args
    os.makedirs(os.path.join(workdir, "out"))
    ypath = os.path.join(workdir, "lib.yaml")
    with open(ypath, "w") as fp:
        fp.write(text)
    stale = {}
    if dirty:
        # dirty: {file name: bytes already in the output directory}
        for fn, content in dirty.items():
            with open(os.path.join(workdir, "out", fn), "wb") as fp:
                fp.write(content)
        stale = {"keep_me.txt": b"user file\n"}
        with open(os.path.join(workdir, "out", "keep_me.txt"), "wb") as fp:
            fp.write(stale["keep_me.txt"])
    env = dict(os.environ)
    env.pop("SHROUD_VERIF", None)
    env["PYTHONPATH"] = repo
    env.update(env_over)
    if absolute:
        cwd = cwd_other or "/"
        argv = ["--outdir", os.path.join(workdir, "out"), "--logdir", os.path.join(workdir, "out"), ypath]
    else:
        cwd = workdir
        argv = ["--outdir", "out", "--logdir", "out", "lib.yaml"]
    p = subprocess.run([sys.executable, "-m", "shroud.main"] + list(extra) + argv, cwd=cwd, env=env, capture_output=True, text=True, errors="replace")
    if p.returncode != 0:
        shutil.rmtree(workdir, ignore_errors=True)
        return ("fail", p.stderr[-400:])
    tree = isolate.read_tree(os.path.join(workdir, "out"), skip_ext=C07_SKIP)
    if absolute:
        # setup.py embeds the output path: neutralise the one legitimate difference
        for k in list(tree):
            tree[k] = tree[k].replace(workdir.encode(), b"<WORKDIR>")
    for k, v in stale.items():
        if tree.get(k) != v:
            shutil.rmtree(workdir, ignore_errors=True)
            return ("fail", "pre-existing unrelated file %s was modified or removed" % k)
        tree.pop(k)
    shutil.rmtree(workdir, ignore_errors=True)
    return ("ok", tree)


def path_case(args):
    """Splicer files are looked up along --path only: a file of the same name in the current directory must not be read.
    Two runs with absolute arguments, one from an empty directory, one from a directory holding a decoy."""
    workdir, text, repo = args
    import yaml as _y
    d = _y.safe_load(text)
    d["splicer"] = {"c": ["user_splicer.c"], "f": ["user_splicer.f"]}
    trees = []
    spl = os.path.join(workdir, "spl")
    os.makedirs(spl)
    with open(os.path.join(spl, "user_splicer.c"), "w") as fp:
        fp.write("// splicer begin CXX_definitions\n// from the --path directory\nstatic int from_path = 1;\n// splicer end CXX_definitions\n")
    with open(os.path.join(spl, "user_splicer.f"), "w") as fp:
        fp.write("! splicer begin module_top\ninteger, parameter :: from_path = 1\n! splicer end module_top\n")
    ypath = os.path.join(workdir, "lib.yaml")
    with open(ypath, "w") as fp:
        _y.safe_dump(d, fp, sort_keys=False)
    for tag in ("empty", "decoy"):
        cwd = os.path.join(workdir, "cwd-" + tag)
        out = os.path.join(workdir, "out-" + tag)
        os.makedirs(cwd)
        os.makedirs(out)
        if tag == "decoy":
            with open(os.path.join(cwd, "user_splicer.c"), "w") as fp:
                fp.write("// splicer begin CXX_definitions\nstatic int from_cwd = 2;\n// splicer end CXX_definitions\n")
            with open(os.path.join(cwd, "user_splicer.f"), "w") as fp:
                fp.write("! splicer begin module_top\ninteger, parameter :: from_cwd = 2\n! splicer end module_top\n")
        env = dict(os.environ, PYTHONPATH=repo, PYTHONHASHSEED="0", PYTHONDONTWRITEBYTECODE="1")
        env.pop("SHROUD_VERIF", None)
        p = subprocess.run([sys.executable, "-m", "shroud.main", "--path", spl, "--outdir", out, "--logdir", out, ypath], cwd=cwd, env=env, capture_output=True, text=True, errors="replace")
        if p.returncode != 0:
            shutil.rmtree(workdir, ignore_errors=True)
            return ("fail", p.stderr[-300:], None)
        t = isolate.read_tree(out, skip_ext=(".log", ".json"))
        trees.append({k: v.replace(out.encode(), b"<OUT>") for k, v in t.items()})
    shutil.rmtree(workdir, ignore_errors=True)
    return ("ok", trees[0], trees[1])


def patched_run(args):
    """In a forked child: patch clock/host/pid/random to the given answers, then generate."""
    workdir, text, extra, variant = args

    def body():
        import datetime
        import random
        import socket
        import time

        import shroud.main

        t = 1.0e9 if variant % 2 == 0 else 1.9e9
        time.time = lambda: t
        time.localtime = lambda *a: time.gmtime(t)
        time.ctime = lambda *a: "Thu Jan  1 00:00:00 1970" if variant % 2 == 0 else "Fri Feb  2 11:11:11 2029"
        time.strftime_orig = time.strftime
        time.strftime = lambda fmt, *a: time.strftime_orig(fmt, time.gmtime(t))
        socket.gethostname = lambda: "host%d" % variant
        os.getpid = lambda: 1000 + variant
        os.getlogin = lambda: "user%d" % variant
        random.seed(variant)

        class DT(datetime.datetime):
            @classmethod
            def now(cls, tz=None):
                return cls.fromtimestamp(t, tz)

            @classmethod
            def today(cls):
                return cls.fromtimestamp(t)

        datetime.datetime = DT
        os.makedirs(os.path.join(workdir, "out"))
        with open(os.path.join(workdir, "lib.yaml"), "w") as fp:
            fp.write(text)
        os.chdir(workdir)
        shroud.main.main_with_args(ns_for("lib.yaml", "out", extra, every_output=variant >= 2))
        return True

    r = isolate.call_in_child(body, (), timeout=120)
    if r.status != "ok":
        shutil.rmtree(workdir, ignore_errors=True)
        return ("fail", "%s %s" % (r.exc, r.msg))
    tree = isolate.read_tree(os.path.join(workdir, "out"), skip_ext=C07_SKIP)
    shutil.rmtree(workdir, ignore_errors=True)
    return ("ok", tree)


def run(ctx):
    quick = ctx.tier == "quick"
    W = ctx.workers
    base = ctx.subdir("h")
    alphabet = [(a[0], a[1] if a[1] is not None else twin("c" if a[0] == "twin-c" else "cxx"), a[2]) for a in ALPHABET]
    if not quick:
        indir = os.path.join(ctx.repo, "regression", "input")
        for nm in ("struct", "classes", "strings", "vectors", "ownership", "templates", "pointers", "tutorial", "enum", "generic"):
            cfg = [c for c in corpus.configs(ctx.repo) if c[1] == nm + ".yaml"][0]
            with open(os.path.join(indir, nm + ".yaml")) as fp:
                text = fp.read()
            # splicer files are looked up relative to --path: drop the file lists, keep everything else
            import yaml as _y
            d = _y.safe_load(text)
            d.pop("splicer", None)
            extra = [a for a in cfg[2]]
            alphabet.append(("corpus-" + nm, _y.safe_dump(d, sort_keys=False), extra))
    n = len(alphabet)
    fresh_list = isolate.pmap(fresh_output, [(os.path.join(base, "f%d" % i), a[0], a[1], a[2]) for i, a in enumerate(alphabet)], W)
    fresh = dict(enumerate(fresh_list))
    depth = 3 if quick else 4
    histories = []
    core = range(len(ALPHABET))
    for d in range(1, depth + 1):
        if d <= (2 if quick else 3):
            histories += list(itertools.product(range(n), repeat=d))
        else:
            histories += list(itertools.product(core, repeat=d))
    ctx.rng.shuffle(histories)
    jobs = [(os.path.join(base, "h%d" % i), list(h), alphabet, fresh) for i, h in enumerate(histories)]
    res = isolate.pmap(history_case, jobs, W, chunksize=2)
    states = set()
    edges = set()
    for history, state, err in res:
        if state:
            states.add(state)
        ctx.outcome("history ok" if not err else "history differs")
        if err:
            names = [alphabet[i][0] for i in history]
            # minimal witness key: the last library and the set of languages seen before it
            ctx.violation("history %s" % ">".join(names), "after %s the output of %s differs from a fresh process:\n%s" % (
                ">".join(names[:-1]) or "(nothing)", names[-1], err), {"kind": "history", "history": names})
    # the same for every pair with each optional output file requested (--cfiles --ffiles --yaml-types --write-helpers
    # --write-statements): the dumps of the helper and statement tables are output files like any other
    fresh_e = dict(enumerate(isolate.pmap(fresh_output, [(os.path.join(base, "fe%d" % i), a[0], a[1], a[2], True) for i, a in enumerate(alphabet)], W)))
    pairs = list(itertools.product(range(n), repeat=2))
    eres = isolate.pmap(history_case, [(os.path.join(base, "he%d" % i), list(h), alphabet, fresh_e, True) for i, h in enumerate(pairs)], W, chunksize=2)
    for history, state, err in eres:
        ctx.outcome("history+files ok" if not err else "history+files differs")
        if err:
            names = [alphabet[i][0] for i in history]
            ctx.violation("history+files %s" % ">".join(names), "with every optional output file requested, after %s the output of %s differs from a fresh process:\n%s" % (
                names[0], names[1], err), {"kind": "history", "history": names, "every_output": True})
    ctx.count(states=len(states), transitions=len(res) + len(eres), validated=len(res) + len(eres))
    ctx.nontrivial_n(len(res) + len(eres))
    ctx.part("histories", libraries=n, depth=depth, histories=len(res), distinct_registry_states=len(states), pairs_with_every_optional_file=len(eres))
    ctx.sample({"history": [alphabet[i][0] for i in histories[0]]})

    # ---- other dimensions (fresh interpreters)
    cbase = ctx.subdir("c")
    # by name, so that extending the alphabet cannot silently drop a library from this part
    want = ["csmall", "small", "other", "fwd", "hdrs", "structclass"] + ([] if quick else ["cstr", "small-as-c-opts", "small-guarded"])
    sel = [a for nm in want for a in alphabet if a[0] == nm]
    assert len(sel) == len(want)
    jobs = []
    labels = []
    other_cwd = ctx.subdir("elsewhere")
    seeds = ["0", "1", "2", "3", "4", "5", "6", "7", "random"]
    for li, (name, text, extra) in enumerate(sel):
        k = 0
        def add(label, env, absolute=False, cwd_other=None, dirty=None):
            nonlocal k
            k += 1
            jobs.append((os.path.join(cbase, "%s-%d" % (name, k)), text, extra, env, absolute, cwd_other, dirty, ctx.repo))
            labels.append((name, label))
        for s in seeds:
            add("seed=" + s, {"PYTHONHASHSEED": s})
        add("abs-cwd-root", {"PYTHONHASHSEED": "0"}, absolute=True)
        add("abs-cwd-elsewhere", {"PYTHONHASHSEED": "0"}, absolute=True, cwd_other=other_cwd)
        add("env-A", {"PYTHONHASHSEED": "0", "HOME": "/nonexistent/a", "USER": "alice", "HOSTNAME": "hosta", "LANG": "C", "TZ": "UTC", "SOURCE_DATE_EPOCH": "1"})
        add("env-B", {"PYTHONHASHSEED": "0", "HOME": "/tmp", "USER": "bob", "HOSTNAME": "hostb", "LANG": "en_US.UTF-8", "LC_ALL": "C.UTF-8", "TZ": "Asia/Tokyo", "SOURCE_DATE_EPOCH": "1700000000",
                      "PYTHONOPTIMIZE": "1", "PYTHONDONTWRITEBYTECODE": "1", "PYTHONUNBUFFERED": "1", "COLUMNS": "40"})
        # what an earlier run may have left under the same names: unrelated text, nothing, the first half of the right text (an
        # interrupted run), the right text with something appended (a longer earlier version), the right text itself
        good = {k2: v for k2, v in fresh[[a[0] for a in alphabet].index(name)].items() if "/" not in k2}

        def half(b):
            lines = b.split(b"\n")
            return b"\n".join(lines[: len(lines) // 2]) + b"\n"
        add("dirty-outdir", {"PYTHONHASHSEED": "0"}, dirty={k2: b"STALE CONTENT THAT MUST NOT SURVIVE\n" * 400 for k2 in good})
        add("dirty-outdir-empty", {"PYTHONHASHSEED": "0"}, dirty={k2: b"" for k2 in good})
        add("dirty-outdir-truncated", {"PYTHONHASHSEED": "0"}, dirty={k2: half(v) for k2, v in good.items()})
        add("dirty-outdir-longer", {"PYTHONHASHSEED": "0"}, dirty={k2: v + b"left over from a longer version\n" for k2, v in good.items()})
        add("dirty-outdir-same", {"PYTHONHASHSEED": "0"}, dirty=dict(good))
    cres = isolate.pmap(cli_run, jobs, W)
    ref = {}
    ref_abs = {}
    for (name, label), (st, tree) in zip(labels, cres):
        ctx.outcome("dimension " + st)
        if st != "ok":
            ctx.violation("dimension %s %s" % (name, label), "run failed: %s" % tree, {"kind": "dimension", "lib": name, "label": label})
            continue
        if name not in ref:
            ref[name] = (label, tree)
            continue
        l0, t0 = ref[name]
        a, b = dict(t0), dict(tree)
        if label.startswith("abs") or l0.startswith("abs"):
            # setup.py names its sources by the output path as given: absolute runs are compared with each other
            # (same absolute arguments, different current directory), without setup.py with the relative runs
            if label.startswith("abs"):
                if name in ref_abs:
                    la, ta = ref_abs[name]
                    if ta.get("setup.py") != tree.get("setup.py"):
                        ctx.violation("dimension %s abs-cwd setup.py" % name, "%s: setup.py differs between %s and %s (same absolute paths, other current directory):\n%s" % (
                            name, la, label, "\n".join(isolate.diff_trees({"setup.py": ta.get("setup.py", b"")}, {"setup.py": tree.get("setup.py", b"")}, 1))),
                                      {"kind": "dimension", "lib": name, "label": label})
                else:
                    ref_abs[name] = (label, tree)
            a.pop("setup.py", None)
            b.pop("setup.py", None)
        if a != b:
            ctx.violation("dimension %s %s" % (name, label.split("=")[0]), "%s: output under %s differs from %s:\n%s" % (
                name, label, l0, "\n".join(isolate.diff_trees(a, b, 2))), {"kind": "dimension", "lib": name, "label": label})
    ctx.count(states=len(cres), transitions=len(cres), validated=len(cres))
    ctx.part("dimensions", runs=len(cres), libraries=len(sel), hash_seeds=seeds)
    # ---- --path and the current directory
    pres_ = isolate.pmap(path_case, [(os.path.join(ctx.subdir("pth"), nm), text, ctx.repo) for (nm, text, extra) in sel[:3]], W)
    for (nm, _, _), (st, ta, tb) in zip(sel[:3], pres_):
        if st != "ok":
            ctx.violation("path-cwd %s" % nm, "run with --path failed: %s" % ta, {"kind": "path", "lib": nm})
        elif ta != tb:
            ctx.violation("path-cwd %s" % nm, "%s: with --path given, a splicer file of the same name in the current directory changes the output:\n%s" % (
                nm, "\n".join(isolate.diff_trees(ta, tb, 2))), {"kind": "path", "lib": nm})
        elif not any(b"from_path" in v for v in ta.values()):
            ctx.violation("path-cwd %s" % nm, "%s: the splicer file in the --path directory was not read" % nm, {"kind": "path", "lib": nm})
    ctx.count(states=len(pres_), transitions=2 * len(pres_), validated=2 * len(pres_))
    # ---- patched clock / host / pid / random
    pbase = ctx.subdir("p")
    # variants 0/1: the plain command line under two clocks / hosts; 2/3: the same with every optional output file requested
    pj = [(os.path.join(pbase, "%s-%d" % (nm, v)), text, extra, v) for (nm, text, extra) in sel for v in (0, 1)]
    pj += [(os.path.join(pbase, "%s-%d" % (nm, v)), text, extra, v) for (nm, text, extra) in sel for v in (2, 3)]
    pres = isolate.pmap(patched_run, pj, W)
    half = 2 * len(sel)
    for i in range(half, len(pres), 2):
        nm = sel[(i - half) // 2][0]
        (s0, t0), (s1, t1) = pres[i], pres[i + 1]
        if s0 != "ok" or s1 != "ok":
            ctx.violation("patched-all-outputs %s" % nm, "run with every optional output failed: %s %s" % (t0 if s0 != "ok" else "", t1 if s1 != "ok" else ""), {"kind": "patched", "lib": nm})
        elif t0 != t1:
            ctx.violation("patched-all-outputs %s" % nm, "with every optional output file requested the output depends on clock/host/pid/random:\n%s" % "\n".join(isolate.diff_trees(t0, t1, 2)), {"kind": "patched", "lib": nm})
        elif "alltypes.yaml" not in t0:
            ctx.violation("patched-all-outputs %s" % nm, "--yaml-types file was not written", {"kind": "patched", "lib": nm})
    for i in range(0, half, 2):
        nm = sel[i // 2][0]
        (s0, t0), (s1, t1) = pres[i], pres[i + 1]
        if s0 != "ok" or s1 != "ok":
            ctx.violation("patched %s" % nm, "run failed: %s %s" % (t0 if s0 != "ok" else "", t1 if s1 != "ok" else ""), {"kind": "patched", "lib": nm})
        elif t0 != t1:
            ctx.violation("patched %s" % nm, "output depends on clock/host/pid/random:\n%s" % "\n".join(isolate.diff_trees(t0, t1, 2)), {"kind": "patched", "lib": nm})
        elif t0 != {k: v for k, v in fresh[[a[0] for a in alphabet].index(nm)].items()}:
            ctx.violation("patched-vs-fresh %s" % nm, "patched run differs from the plain run:\n%s" % "\n".join(isolate.diff_trees(fresh[[a[0] for a in alphabet].index(nm)], t0, 2)), {"kind": "patched", "lib": nm})
    ctx.count(states=len(pres), transitions=len(pres), validated=len(pres))
    ctx.part("patched_environment", runs=len(pres))
    ctx.cov["rule"] = (
        "every sequence of in-process main_with_args runs up to depth %d (full alphabet of %d libraries below the last level, the %d core libraries at it); "
        "states = distinct canonical hashes of the process-wide registries after a history, transitions = histories executed, "
        "each compared byte-for-byte with the fresh-interpreter output; plus hash seeds, cwd, environment, dirty outdir, patched clock/host"
        % (depth, n, len(ALPHABET))
    )
    ctx.cov["bounds"] = {"depth": depth, "libraries": [a[0] for a in alphabet]}
    ctx.assumptions += ["PYTHONHASHSEED over nine values, not 2^32", ".log/.json debugging dumps are not compared",
                        "setup.py embeds the output path: compared only between runs given the same relative path"]


def replay(ctx, path):
    with open(path) as fp:
        p = json.load(fp)["payload"]
    print("re-run the check; payload:", p)
    ctx.count(states=1, transitions=1)
