"""C09 - declarations are understood exactly as a C++ compiler understands them.

Every declaration of the depth-bounded derivation grammar (vt/declgen.py) is parsed by the
real declast parser; (1) the recorded AST must equal the derivation it was produced from,
(2) parse(render(parse(d))) == parse(d), (3) g++ must find Shroud's C++ rendering (and, for
native types, its C rendering) to denote the same type as the original text.
"""
from __future__ import annotations

import json
import os
import re
import subprocess

from .. import declgen, isolate


def make_namespace():
    from shroud import ast

    lib = ast.LibraryNode(library="lib")
    lib.add_class("Cls")
    ns = lib.add_namespace("ns")
    ns.add_class("Cls2")
    # typedefs at library scope and inside the namespace
    lib.add_declaration("typedef int Index")
    ns.add_declaration("typedef long Offset")
    return lib


def ptr_list(declarator):
    return [(p.ptr, bool(p.const), bool(p.volatile)) for p in declarator.pointer]


def same_extents(got, written):
    """The printer puts a signed operand in parentheses: extents that are not the written text must have the written value."""
    from .c11 import evaluate

    if len(got) != len(written):
        return False
    try:
        return all(re.fullmatch(r"[-+*/() \d]+", str(w)) and evaluate(g, {}) == evaluate(str(w), {}) for g, w in zip(got, written))
    except Exception:  # noqa
        return False


def compare(node, d, path="decl"):
    """Compare the recorded AST with the derivation. Returns None or a message."""
    from shroud import todict

    spec = list(d.spec)
    targ = None
    if spec[-1].startswith("std::vector<"):
        targ = spec[-1][len("std::vector<"):-1]
        spec[-1] = "std::vector"
    if list(node.specifier) != spec:
        return "%s: specifier %r, written %r" % (path, node.specifier, spec)
    if targ is not None:
        got = [" ".join(t.specifier) for t in node.template_arguments]
        if got != [targ]:
            return "%s: template arguments %r, written <%s>" % (path, got, targ)
    elif node.template_arguments:
        return "%s: spurious template arguments" % path
    if node.typemap is None or node.typemap.name != d.tname:
        return "%s: resolved to type %r, expected %r" % (path, getattr(node.typemap, "name", None), d.tname)
    if bool(node.const) != d.const:
        return "%s: const=%r, written %r" % (path, node.const, d.const)
    if bool(node.volatile) != d.vpre:
        return "%s: volatile=%r, written %r" % (path, node.volatile, d.vpre)
    if list(node.storage) != list(d.storage):
        return "%s: storage %r, written %r" % (path, node.storage, d.storage)
    dec = node.declarator
    if d.funcptr:
        if dec is None or dec.func is None:
            return "%s: function pointer declarator not recorded" % path
        if ptr_list(dec) != d.ptrs:
            return "%s: result pointer chain %r, written %r" % (path, ptr_list(dec), d.ptrs)
        if ptr_list(dec.func) != [("*", False, False)] or dec.func.name != d.name:
            return "%s: (*%s) recorded as %s" % (path, d.name, dec.func)
    elif not d.ptrs and d.name is None:
        if dec is not None:
            return "%s: declarator %s recorded for an abstract scalar" % (path, dec)
    else:
        if dec is None:
            return "%s: no declarator recorded" % path
        if ptr_list(dec) != d.ptrs:
            return "%s: pointer chain %r, written %r" % (path, ptr_list(dec), d.ptrs)
        # the predicates the wrappers ask (how many * / & levels) are read off the same chain
        nstar, nref = sum(1 for p in d.ptrs if p[0] == "*"), sum(1 for p in d.ptrs if p[0] == "&")
        if (node.is_pointer(), node.is_reference(), node.is_indirect()) != (nstar, nref, nstar + nref):
            return "%s: is_pointer / is_reference / is_indirect = %r, the declarator has %d '*' and %d '&'" % (
                path, (node.is_pointer(), node.is_reference(), node.is_indirect()), nstar, nref)
        if dec.name != d.name:
            return "%s: name %r, written %r" % (path, dec.name, d.name)
        if dec.func is not None:
            return "%s: spurious function-pointer declarator" % path
    arr = [todict.print_node(a) for a in node.array]
    if [a.replace(" ", "") for a in arr] != [str(a).replace(" ", "") for a in d.arrays] and not same_extents(arr, d.arrays):
        return "%s: array extents %r, written %r" % (path, arr, d.arrays)
    if d.params is None:
        if node.params is not None:
            return "%s: parameter list recorded for a non-function" % path
    else:
        if node.params is None:
            return "%s: parameter list lost" % path
        if len(node.params) != len(d.params):
            return "%s: %d parameters, written %d" % (path, len(node.params), len(d.params))
        for i, (pn, pd) in enumerate(zip(node.params, d.params)):
            e = compare(pn, pd, "%s.param%d" % (path, i))
            if e:
                return e
    if bool(node.func_const) != d.func_const:
        return "%s: func_const=%r, written %r" % (path, node.func_const, d.func_const)
    # the value of  +rank=1  is recorded as the integer 1 and of  +rank(1)  as the text "1": the same attribute value
    norm = lambda v: v if isinstance(v, bool) else str(v)
    want = dict((at[0], norm(at[1])) for at in d.attrs)
    got = dict((k, norm(v)) for k, v in node.attrs.items() if not k.startswith("_") and v is not None)
    if got != want:
        return "%s: attributes %r, written %r" % (path, got, want)
    if d.init is None:
        if node.init is not None:
            return "%s: default value %r recorded, none written" % (path, node.init)
    else:
        octal = re.fullmatch(r"0[0-7]+", d.init)  # a C octal literal: the value the compiler reads is what is recorded
        if octal and node.init == int(d.init, 8):
            pass
        elif str(node.init) != d.init and not (isinstance(node.init, float) and float(d.init) == node.init):
            return "%s: default value %r, written %r" % (path, node.init, d.init)
    return None


def strip_lines(x, in_attrs=False):
    """todict output without source line numbers; integer attribute values as text (+rank=1 and +rank(1) agree)."""
    if isinstance(x, dict):
        if set(x) == {"node"}:
            # a parenthesised group of an expression: grouping is carried by the shape of the tree, the parentheses the printer
            # adds around a signed operand are the same expression
            return strip_lines(x["node"], in_attrs)
        return {k: strip_lines(v, in_attrs or k == "attrs") for k, v in x.items() if k not in ("linenumber", "__line__")}
    if in_attrs and isinstance(x, int) and not isinstance(x, bool):
        return str(x)
    if isinstance(x, list):
        return [strip_lines(v, in_attrs) for v in x]
    return x


def has_targs(node):
    if node.template_arguments:
        return True
    return any(has_targs(p) for p in (node.params or []))


def is_native(d):
    return not any(s.startswith(("std::", "Cls", "ns::")) for s in d.spec) and all(
        is_native(p) for p in (d.params or []))


def parse_shard(args):
    level, shard, nshards = args
    from shroud import declast, todict, typemap

    typemap.initialize()
    lib = make_namespace()
    out = []
    for idx, (kind, d) in enumerate(declgen.all_decls(level)):
        if idx % nshards != shard:
            continue
        text = d.text()
        rec = {"text": text, "kind": kind, "must": d.must, "err": None, "status": "ok", "cxx": None, "c": None}
        try:
            node = declast.check_decl(text, namespace=lib)
        except (RuntimeError, NotImplementedError, SystemExit) as e:
            rec["status"] = "rejected"
            rec["msg"] = str(e)[-120:]
            out.append(rec)
            continue
        except Exception as e:  # noqa
            rec["status"] = "internal"
            rec["err"] = "internal exception %s: %s" % (type(e).__name__, e)
            out.append(rec)
            continue
        # (1) derivation == recorded AST
        e = compare(node, d)
        if e:
            rec["err"] = "(1) " + e
            out.append(rec)
            continue
        # (2) parse . render . parse == parse  (no default values)
        if d.init is None and not any(p.init is not None for p in (d.params or [])):
            try:
                r1 = node.gen_decl()
                node2 = declast.check_decl(r1, namespace=lib)
                a, b = strip_lines(todict.to_dict(node)), strip_lines(todict.to_dict(node2))
                if a != b:
                    diff = [k for k in set(a) | set(b) if a.get(k) != b.get(k)]
                    rec["err"] = "(2) re-parsing the rendering %r changes %s: %r -> %r" % (
                        r1, diff, {k: a.get(k) for k in diff}, {k: b.get(k) for k in diff})
            except Exception as e:  # noqa
                rec["err"] = "(2) rendering %r of an accepted declaration does not re-parse: %s: %s" % (
                    locals().get("r1"), type(e).__name__, str(e)[-200:])
            if rec["err"]:
                out.append(rec)
                continue
        # (3) renderings for the compiler
        if d.tname.endswith("_complex"):
            out.append(rec)  # 'float complex' is C99, the C++ rendering is std::complex<float>: no common compiler
            continue
        try:
            name = "r_X"
            skip_fn = d.params is not None and any(has_targs(p) for p in node.params)
            if d.name is None and not d.funcptr:
                # abstract declarator: compare as the parameter of a function
                rec["cxx"] = "void r_X(%s)" % node.gen_arg_as_cxx(with_template_args=True)
                rec["decl"] = "void r_X(%s)" % node.gen_decl(attrs=False)
                if is_native(d):
                    rec["c"] = "void r_X(%s)" % node.gen_arg_as_c()
                rec["orig"] = "void o_X(%s)" % d.cxx_text(None)
                rec["cexp"] = rec["orig"].replace("&", "*")
            else:
                if not skip_fn:
                    rec["cxx"] = node.gen_arg_as_cxx(name=name, with_template_args=True)
                    rec["decl"] = node.gen_decl(name=name, attrs=False)
                if is_native(d):
                    rec["c"] = node.gen_arg_as_c(name=name)
                rec["orig"] = d.cxx_text("o_X")
                rec["cexp"] = d.cxx_text("o_X").replace("&", "*")
        except Exception as e:  # noqa
            rec["err"] = "(3) rendering raised %s: %s" % (type(e).__name__, e)
        out.append(rec)
    return out


def compile_batch(args):
    """One translation unit with a static_assert per rendering; returns failing case indices."""
    workdir, bi, cases = args
    lines = [declgen.CXX_PRELUDE]
    owner = {}
    n = 0
    for ci, (orig, renderings) in cases:
        for what, r in renderings:
            n += 1
            o = orig.replace("o_X", "o_%d" % n)
            rr = r.replace("r_X", "r_%d" % n)
            start = len("\n".join(lines).split("\n")) + 1
            if o.rstrip().endswith(") const"):
                # a const method: declare both inside a class and compare the member pointers
                lines.append("struct S_%d { %s;" % (n, o))
                lines.append("%s; };" % rr)
                lines.append("static_assert(std::is_same<decltype(&S_%d::o_%d), decltype(&S_%d::r_%d)>::value, \"case %d\");" % (n, n, n, n, n))
            else:
                lines.append("extern %s;" % o)
                lines.append("extern %s;" % rr)
                lines.append("static_assert(std::is_same<decltype(o_%d), decltype(r_%d)>::value, \"case %d\");" % (n, n, n))
            for ln in range(start, start + 3):
                owner[ln] = (ci, what, o, rr)
    src = os.path.join(workdir, "b%d.cpp" % bi)
    with open(src, "w") as fp:
        fp.write("\n".join(lines) + "\n")
    p = subprocess.run(["g++", "-std=c++11", "-fsyntax-only", "-fmax-errors=0", src], capture_output=True, text=True, errors="replace")
    bad = {}
    if p.returncode != 0:
        for m in re.finditer(r"^%s:(\d+):\d+: error: (.*)$" % re.escape(src), p.stderr, re.M):
            ln = int(m.group(1))
            if ln in owner:
                ci, what, o, rr = owner[ln]
                bad.setdefault((ci, what), "g++: %s  [original: %s | %s rendering: %s]" % (m.group(2)[:160], o, what, rr))
        if not bad:
            bad[(-1, "batch")] = "g++ failed without an attributable line: " + p.stderr[:400]
    os.unlink(src)
    return n, bad


TEMPLATE_SHAPES = ["T %s", "const T %s", "T * %s", "const T * %s", "T & %s", "const T & %s", "T * const %s", "volatile T * %s", "T * * %s",
                   "const T * const * %s", "T const * %s", "const T * & %s", "T %s[3]", "const T %s[2][3]"]
TEMPLATE_ARGS = ["int", "double", "long", "unsigned int", "Cls", "std::string"]


def template_shard(args):
    """Declarations over a template parameter T, instantiated: the recorded type is the one a compiler derives by substitution."""
    from shroud import ast, declast, typemap

    typemap.initialize()
    lib = make_namespace()
    out = []
    for shape in TEMPLATE_SHAPES:
        for site in ("param", "result"):
            if site == "result" and ("[" in shape):
                continue
            for targ in TEMPLATE_ARGS:
                text = ("template<typename T> void f(%s, int n)" % (shape % "a")) if site == "param" else ("template<typename T> %s(int n)" % (shape % "f"))
                rec = {"text": "%s  with <%s>" % (text, targ), "kind": "instantiate", "must": "must", "err": None, "status": "ok", "cxx": None, "c": None}
                try:
                    t = declast.check_decl(text, namespace=lib)
                    ta = ast.TemplateArgument("<%s>" % targ)
                    ta.parse_instantiation(namespace=lib)
                    node = (t.decl.params[0] if site == "param" else t.decl).instantiate(ta.asts[0])
                    native = targ not in ("Cls", "std::string")
                    if site == "param":
                        rec["cxx"] = node.gen_arg_as_cxx(name="r_X")
                        rec["decl"] = node.gen_decl(name="r_X", attrs=False)
                        if native:
                            rec["c"] = node.gen_arg_as_c(name="r_X")
                        rec["orig"] = (shape % "o_X").replace("T", targ)
                    else:
                        rec["cxx"] = node.gen_arg_as_cxx(name="r_X", params=None) + "(int n)"
                        rec["decl"] = rec["cxx"]
                        rec["orig"] = (shape % "o_X").replace("T", targ) + "(int n)"
                    rec["cexp"] = rec["orig"].replace("&", "*")
                except Exception as e:  # noqa
                    rec["err"] = "instantiation raised %s: %s" % (type(e).__name__, str(e)[:200])
                out.append(rec)
    return out


C_STRUCT_SHAPES = ["Pt %s", "Pt * %s", "const Pt * %s", "Pt * * %s", "const Pt * const %s", "Pt %s[3]", "Index %s", "const Index * %s"]


def c_language_shard(args):
    """A C library: the C counterpart of a struct (and of a typedef) the library declares is that type itself."""
    from shroud import ast, declast, typemap

    typemap.initialize()
    lib = ast.LibraryNode(library="clib", language="c")
    lib.add_declaration("struct Pt { int x; double y; };")
    lib.add_declaration("typedef int Index")
    out = []
    for shape in C_STRUCT_SHAPES:
        for site in ("variable", "parameter", "result"):
            if site == "result" and "[" in shape:
                continue
            if site == "variable":
                text = shape % "a"
            elif site == "parameter":
                text = "void f(%s, int n)" % (shape % "a")
            else:
                text = (shape % "f") + "(int n)"
            rec = {"text": text + "  [language c]", "kind": "c-language", "must": "must", "err": None, "status": "ok", "cxx": None, "c": None}
            try:
                node = declast.check_decl(text, namespace=lib)
                if site == "parameter":
                    node = node.params[0]
                if site == "result":
                    rec["c"] = node.gen_arg_as_c(name="r_X", params=None) + "(int n)"
                    rec["cexp"] = (shape % "o_X") + "(int n)"
                else:
                    rec["c"] = node.gen_arg_as_c(name="r_X")
                    rec["cexp"] = shape % "o_X"
                rec["orig"] = rec["cexp"]
            except Exception as e:  # noqa
                rec["err"] = "raised %s: %s" % (type(e).__name__, str(e)[:200])
            out.append(rec)
    return out

# ---- unqualified and qualified name lookup in nested scopes
# scope -> names it declares (kind); the same names are declared again in inner scopes, which is the point
SCOPES = {
    "": {"Color": "enum", "Shade": "enum", "Tag": "class", "Index": "typedef int", "Board": "class", "geo": "namespace"},
    "geo": {"Color": "enum", "Tag": "class", "Grid": "class", "Index": "typedef long", "deep": "namespace"},
    "geo::Grid": {"Color": "enum", "Mode": "enum"},
    "geo::deep": {"Shade": "enum", "Grid": "class"},
    "geo::deep::Grid": {"Shade": "enum"},
    "Board": {"Shade": "enum", "Color": "enum"},
}
LOOKUP_NAMES = ["Color", "Shade", "Tag", "Index", "Grid", "Mode", "Board", "geo::Color", "geo::Shade", "geo::Grid::Color", "Grid::Color", "Grid::Shade", "Grid::Mode",
                "deep::Shade", "deep::Grid", "geo::deep::Grid", "geo::deep::Grid::Shade", "Board::Shade", "Board::Color", "Board::Mode", "geo::Tag", "geo::Index", "deep::Color",
                "geo::Board", "Tag::Color"]


def cxx_lookup(scope, name):
    """The C++ rule: an unqualified name is searched from the innermost scope outwards; the first component of a qualified
    name likewise, every later component only in the scope named so far.  Returns the qualified name or None."""
    parts = name.split("::")
    cur = scope
    found = None
    while True:
        if parts[0] in SCOPES.get(cur, {}):
            found = (cur + "::" if cur else "") + parts[0]
            break
        if not cur:
            return None
        cur = cur.rpartition("::")[0]
    for p in parts[1:]:
        if p not in SCOPES.get(found, {}):
            return None
        found = found + "::" + p
    kind = SCOPES[found.rpartition("::")[0]][found.rpartition("::")[2]]
    return None if kind == "namespace" else found


def scope_header():
    def body(scope, ind):
        out = []
        for n, kind in SCOPES.get(scope, {}).items():
            q = (scope + "::" if scope else "") + n
            if kind == "enum":
                out.append("%senum %s { %s_%d };" % (ind, n, n.upper(), len(q)))
            elif kind.startswith("typedef"):
                out.append("%s%s %s;" % (ind, kind, n))
            elif kind == "namespace":
                out += ["%snamespace %s {" % (ind, n)] + body(q, ind + "  ") + ["%s}" % ind]
            else:
                out += ["%sclass %s { public:" % (ind, n)] + body(q, ind + "  ") + ["%s  static void vt_probe_fn();" % ind, "%s};" % ind]
        return out
    return "\n".join(body("", "")) + "\n"


def scope_probe(scope, lines):
    """Text evaluated in the given scope after everything is declared: a reopened namespace, or the body of a member function."""
    if scope == "":
        return "\n".join(lines) + "\n"
    parent, _, name = scope.rpartition("::")
    if SCOPES[parent][name] == "namespace":
        return "".join("namespace %s { " % p for p in scope.split("::")) + "\n" + "\n".join(lines) + "\n" + "}" * len(scope.split("::")) + "\n"
    return "void %s::vt_probe_fn() {\n%s\n}\n" % (scope, "\n".join(lines))


def scope_shard(args):
    """Every name of LOOKUP_NAMES used in every scope: the type Shroud records against the C++ lookup rule; the rule itself is
    checked against g++ (one translation unit of static_asserts, and one per name that must not resolve)."""
    workdir = args[0]
    from shroud import ast, declast, typemap

    typemap.initialize()
    lib = ast.LibraryNode(library="lib")
    nodes = {"": lib}
    out = []
    for scope in SCOPES:
        for n, kind in SCOPES[scope].items():
            q = (scope + "::" if scope else "") + n
            if kind == "enum":
                nodes[scope].add_declaration("enum %s { %s_%d }" % (n, n.upper(), len(q)))
            elif kind.startswith("typedef"):
                try:
                    nodes[scope].add_declaration("%s %s" % (kind, n))
                except Exception as e:  # noqa
                    out.append({"text": "%s %s  [in scope %s]" % (kind, n, scope or "::"), "kind": "lookup", "must": "must", "status": "internal", "cxx": None, "c": None,
                                "err": "(1) %s: %s; declares the type %s" % (type(e).__name__, str(e).strip().split("\n")[-1][:80], q)})
            elif kind == "namespace":
                nodes[q] = nodes[scope].add_namespace(n)
            else:
                nodes[q] = nodes[scope].add_class(n)
    probes = {}
    negatives = []
    for scope in SCOPES:
        for name in LOOKUP_NAMES:
            want = cxx_lookup(scope, name)
            for shape in ("void f(%s a)", "%s *f()", "void f(const %s &a, int n)"):
                text = shape % name
                rec = {"text": "%s  [in scope %s]" % (text, scope or "::"), "kind": "lookup", "must": "must", "err": None, "status": "ok", "cxx": None, "c": None}
                try:
                    node = declast.check_decl(text, namespace=nodes[scope])
                    got = (node.params[0] if shape.startswith("void") else node).typemap.name
                    if want is None:
                        rec["err"] = "(1) %s does not name a type in scope %s, accepted as %s" % (name, scope or "::", got)
                    elif got != want:
                        rec["err"] = "(1) resolved to type %r, the C++ lookup rule gives %r" % (got, want)
                except (RuntimeError, NotImplementedError, SystemExit) as e:
                    rec["status"] = "rejected"
                    if want is not None:
                        rec["err"] = "(1) rejected (%s), the C++ lookup rule gives %r" % (str(e).strip().split("\n")[-1][:80], want)
                except Exception as e:  # noqa
                    rec["status"] = "internal"
                    rec["err"] = "internal exception %s: %s" % (type(e).__name__, e)
                out.append(rec)
            if "::" not in name:
                # after a type specifier the same identifier is the name being declared, whatever it names in the scope
                for shape, tn in (("void f(int %s)", "int"), ("void f(const double *%s, int n)", "double"), ("long %s", "long"), ("unsigned int %s[3]", "unsigned_int")):
                    text = shape % name
                    rec = {"text": "%s  [in scope %s]" % (text, scope or "::"), "kind": "lookup", "must": "must", "err": None, "status": "ok", "cxx": None, "c": None}
                    try:
                        node = declast.check_decl(text, namespace=nodes[scope])
                        sub = node.params[0] if shape.startswith("void") else node
                        if sub.typemap.name != tn or sub.name != name:
                            rec["err"] = "(1) recorded as type %r name %r; declares %r of type %s" % (sub.typemap.name, sub.name, name, tn)
                    except Exception as e:  # noqa
                        rec["status"] = "rejected"
                        rec["err"] = "(1) %s: %s; declares %r of type %s" % (type(e).__name__, str(e).strip().split("\n")[-1][:80], name, tn)
                    out.append(rec)
            if want is not None:
                probes.setdefault(scope, []).append((name, want))
            else:
                negatives.append((scope, name))
    # the rule against the compiler
    os.makedirs(workdir, exist_ok=True)
    hdr = "#include <type_traits>\n" + scope_header()
    k = 0
    src = hdr
    for scope, lst in probes.items():
        lines = []
        for name, want in lst:
            lines.append('static_assert(std::is_same<%s, ::%s>::value, "%s in %s");' % (name, want, name, scope or "::"))
            k += 1
        src += scope_probe(scope, lines)
    with open(os.path.join(workdir, "lookup.cpp"), "w") as fp:
        fp.write(src)
    r = subprocess.run(["g++", "-std=c++11", "-fsyntax-only", "lookup.cpp"], cwd=workdir, capture_output=True, text=True)
    if r.returncode != 0:
        raise RuntimeError("the C++ lookup model of the check disagrees with g++: %s" % r.stderr[:600])
    out.append({"text": "lookup rule against g++ (%d names)" % k, "kind": "lookup", "must": "must", "err": None, "status": "ok", "cxx": None, "c": None})
    for i, (scope, name) in enumerate(negatives):
        with open(os.path.join(workdir, "neg%d.cpp" % i), "w") as fp:
            fp.write(hdr + scope_probe(scope, ["typedef %s vt_probe;" % name]))
        r = subprocess.run(["g++", "-std=c++11", "-fsyntax-only", "neg%d.cpp" % i], cwd=workdir, capture_output=True, text=True)
        if r.returncode == 0:
            raise RuntimeError("the C++ lookup model of the check disagrees with g++: %s resolves in scope %s" % (name, scope))
    import shutil
    shutil.rmtree(workdir, ignore_errors=True)
    return out, k, len(negatives)


# libraries created one after the other in one interpreter, the way tests/test_ast.py does it (LibraryNode / create_library_from_dictionary
# without re-initialising the type tables): what a library declares must not colour how a later one is understood
SEQ_LIBS = [
    ("tdint", [{"decl": "typedef int Index"}]),
    ("tdlong", [{"decl": "typedef long Index"}]),
    ("tddouble", [{"decl": "typedef double Index"}]),
    ("tdns", [{"decl": "namespace geo", "declarations": [{"decl": "typedef short Index"}]}, {"decl": "typedef unsigned int Index"}]),
    ("enum", [{"decl": "enum Index { I_A, I_B }"}]),
    ("class", [{"decl": "class Index", "declarations": [{"decl": "Index()"}]}]),
    ("tmpl", [{"decl": "template<typename T> void first(T arg)", "cxx_template": [{"instantiation": "<int>"}]}]),
    ("plain", [{"decl": "int other(int a)"}]),
]
SEQ_PROBES = ["Index big(Index i)", "void put(const Index *v, Index &w)", "void second(T arg)", "Index *many(int n)"]


def seq_probe(lib):
    from shroud import declast

    out = []
    for text in SEQ_PROBES:
        try:
            d = declast.check_decl(text, namespace=lib)
            out.append("ok cxx=%s c=%s" % (d.gen_arg_as_cxx(), d.gen_arg_as_c()))
        except BaseException as e:  # noqa - the class of the refusal is what is compared
            out.append("refused %s" % ("diagnostic" if type(e).__name__ in ("RuntimeError", "SystemExit") else type(e).__name__))
    return out


def seq_case(args):
    """names of SEQ_LIBS processed in this order in one interpreter -> how the last one understands the probes"""
    order = args[0]
    from shroud import ast, typemap

    typemap.initialize()
    lib = None
    for nm in order:
        decls = dict(SEQ_LIBS)[nm]
        lib = ast.create_library_from_dictionary({"library": "L" + nm, "cxx_header": "l.hpp", "declarations": decls})
    return seq_probe(lib)


def seq_shard(args):
    recs = []
    names = [n for n, _ in SEQ_LIBS]
    alone = {}
    for nm in names:
        r = isolate.call_in_child(seq_case, (([nm],),), timeout=60)
        alone[nm] = r.value if r.status == "ok" else ["failed %s %s" % (r.exc, (r.msg or "")[:80])]
    for a in names:
        for b in names:
            if b == "enum" and a != "enum":
                # an enumeration keeps a typemap registered earlier under its name (create_enum_typemap looks it up first, so that a
                # 'typemap:' section can describe it beforehand); the real entry points re-initialise the tables for every run
                continue
            r = isolate.call_in_child(seq_case, (([a, b],),), timeout=60)
            got = r.value if r.status == "ok" else ["failed %s %s" % (r.exc, (r.msg or "")[:80])]
            err = None
            if got != alone[b]:
                k = [i for i, (x, y) in enumerate(zip(got + ["?"] * 9, alone[b])) if x != y][0]
                err = "(6) after library '%s' in the same interpreter, library '%s' reads %r as %r; alone it reads it as %r" % (
                    a, b, SEQ_PROBES[k] if k < len(SEQ_PROBES) else "?", got[k] if k < len(got) else got, alone[b][k])
            recs.append({"text": "library %s after library %s" % (b, a), "kind": "sequence", "must": "must", "status": "ok", "cxx": None, "c": None, "err": err})
    return recs



def run(ctx):
    level = 2 if ctx.tier == "quick" else 3
    W = ctx.workers
    nsh = W * 2
    recs = []
    for part in isolate.pmap(parse_shard, [(level, s, nsh) for s in range(nsh)], W):
        recs.extend(part)
    recs.extend(isolate.call_in_child(template_shard, ((),), timeout=120).value)
    recs.extend(isolate.call_in_child(c_language_shard, ((),), timeout=120).value)
    lres = isolate.call_in_child(scope_shard, ((ctx.subdir("lookup"),),), timeout=300)
    if lres.status != "ok":
        raise RuntimeError("scope lookup shard: %s %s" % (lres.exc, lres.msg))
    recs.extend(lres.value[0])
    seq = seq_shard(())
    recs.extend(seq)
    ctx.part("library_sequences", libraries=len(SEQ_LIBS), ordered_pairs=len(seq), probes=len(SEQ_PROBES))
    ctx.part("scope_lookup", scopes=len(SCOPES), names=len(LOOKUP_NAMES), declarations=len(lres.value[0]), gxx_resolving=lres.value[1], gxx_not_resolving=lres.value[2])
    ctx.count(states=len(recs), transitions=len(recs), validated=len(recs))
    kinds = {}
    for i, r in enumerate(recs):
        ctx.outcome("parse " + r["status"])
        kinds[r["kind"]] = kinds.get(r["kind"], 0) + 1
        ctx.nontrivial(r["text"])
        if r["err"]:
            ctx.violation(key_of(r["text"], r["err"]), "%s: %s" % (r["text"], r["err"]), {"text": r["text"]})
    ctx.part("grammar", level=level, declarations=len(recs), by_kind=kinds)
    ctx.sample({"declaration": recs[len(recs) // 3]["text"]})
    ctx.sample({"declaration": recs[-5]["text"]})
    # (3) compiler oracle
    work = ctx.subdir("cxx")
    cases = []
    for i, r in enumerate(recs):
        if r["status"] != "ok" or r["err"]:
            continue
        rend = []
        if r.get("cxx"):
            rend.append(("gen_arg_as_cxx", r["cxx"]))
            if "+" not in r["decl"] and "=" not in r["decl"]:
                rend.append(("gen_decl", r["decl"]))
        if rend:
            cases.append((i, (r["orig"], rend)))
        if r.get("c"):
            cases.append((i, (r["cexp"], [("gen_arg_as_c", r["c"])])))
    B = 250
    batches = [(work, bi, cases[k:k + B]) for bi, k in enumerate(range(0, len(cases), B))]
    res = isolate.pmap(compile_batch, batches, W)
    ncomp = 0
    for n, bad in res:
        ncomp += n
        for (ci, what), msg in bad.items():
            text = recs[ci]["text"] if ci >= 0 else "(batch)"
            ctx.violation(key_of(text, "(3) " + what + " " + msg), "%s: (3) %s %s" % (text, what, msg), {"text": text})
    ctx.count(transitions=ncomp, validated=ncomp)
    ctx.part("compiler_oracle", static_asserts=ncomp, translation_units=len(batches))
    ctx.cov["rule"] = (
        "every declaration derived from the declarator grammar at level %d (types x cv x pointer chains x arrays x "
        "functions x function pointers x attributes x defaults); states = distinct declaration texts, transitions = "
        "parser executions + g++ static_asserts, all compared with the derivation / compiler" % level
    )
    ctx.cov["bounds"] = {"grammar_level": level}
    ctx.assumptions += ["g++ 12 -std=c++11 as the meaning of C++ declarations",
                        "C rendering compared for native types only (reference -> pointer)"]


def key_of(text, err):
    """Key a finding by the mechanism, not by each text it shows up in."""
    if "volatile" in err and ("volatile" in text):
        if err.startswith("(2)") or err.startswith("(3)"):
            return "volatile specifier not rendered"
    return "decl %r: %s" % (text, err.split(":")[0][:60])


def replay(ctx, path):
    from shroud import declast, typemap

    with open(path) as fp:
        p = json.load(fp)["payload"]
    typemap.initialize()
    lib = make_namespace()
    node = declast.check_decl(p["text"], namespace=lib)
    print("text     :", p["text"])
    print("str      :", str(node))
    print("gen_decl :", node.gen_decl())
    print("as_cxx   :", node.gen_arg_as_cxx(with_template_args=True))
    ctx.count(states=1, transitions=1)
