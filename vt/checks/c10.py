"""C10 - character data crosses the language boundary by the documented rules.

Helper level: the C and C++ source of every string helper is taken from the real
`shroud --write-helpers` output, compiled into a harness (plain and AddressSanitizer builds,
heap buffers of exactly the stated size with guard bytes) and run on EVERY (destination
length, source length, content) up to the bound; the observed bytes are compared with a
byte-exact Python reference of the documented rule.
End to end (Fortran <-> C through generated wrappers): see vt/checks/strings_e2e.py, run here.
"""
from __future__ import annotations

import itertools
import json
import os
import re
import shutil
import subprocess

from .. import isolate

ALPHA = "ab "


def extract_helpers(text):
    """{(name, variant): source} from the --write-helpers file."""
    out = {}
    for m in re.finditer(r"^##### start (\S+) (\S+)\n(.*?)^##### end \1 \2$", text, re.S | re.M):
        out[(m.group(1), m.group(2))] = m.group(3)
    return out


def helper_src(h, name, lang):
    for variant in (("c_source" if lang == "c" else "cxx_source"), "source"):
        if (name, variant) in h:
            return h[(name, variant)]
    raise KeyError((name, lang))


HARNESS = r"""
#include <stdio.h>
#include <stdlib.h>
#include <string.h>
#ifdef __cplusplus
#include <string>
#include <cstring>
#include <cstdlib>
#endif
%(typedefs)s
static int ndtor = 0;
static void NON_SHROUD_memory_destructor(NON_SHROUD_capsule_data *cap) { ndtor++; cap->addr = NULL; }
%(helpers)s

#define G 4
static const char ALPHA[] = "ab ";
static void hex(const char *tag, const unsigned char *p, int n) {
    printf("%%s", tag);
    for (int i = 0; i < n; i++) printf("%%02x", p[i]);
}
/* buffer of exactly n usable bytes between guards; returns pointer to usable part */
static unsigned char *gbuf(int n) {
    unsigned char *b = (unsigned char *) malloc(n + 2 * G);
    memset(b, 0xEE, n + 2 * G);
    return b + G;
}
static void gfree(unsigned char *p) { free(p - G); }
static void content(char *dst, int n, long code) {
    for (int i = 0; i < n; i++) { dst[i] = ALPHA[code %% 3]; code /= 3; }
}
static long ipow3(int n) { long r = 1; while (n-- > 0) r *= 3; return r; }

int main(int argc, char **argv) {
    int MAXN = atoi(argv[1]);
    const char *which = argv[2];
    if (!strcmp(which, "copy")) {
        for (int ndest = 0; ndest <= MAXN; ndest++) {
            /* NULL source */
            unsigned char *d = gbuf(ndest);
            memset(d, 'z', ndest);
            ShroudStrCopy((char *) d, ndest, NULL, 0);
            printf("copy %%d null 0 ", ndest); hex("", d - G, ndest + 2 * G); printf("\n");
            gfree(d);
            for (int mode = 0; mode < 2; mode++)      /* 0: explicit nsrc, 1: nsrc = -1 (NUL terminated) */
            for (int nsrc = 0; nsrc <= MAXN; nsrc++)
            for (long code = 0; code < ipow3(nsrc); code++) {
                unsigned char *d2 = gbuf(ndest);
                memset(d2, 'z', ndest);
                char *s = (char *) malloc(nsrc + mode);   /* exactly the bytes the helper may read */
                content(s, nsrc, code);
                if (mode) s[nsrc] = '\0';
                ShroudStrCopy((char *) d2, ndest, s, mode ? -1 : nsrc);
                printf("copy %%d %%d %%ld %%d ", ndest, nsrc, code, mode); hex("", d2 - G, ndest + 2 * G); printf("\n");
                free(s); gfree(d2);
            }
        }
    } else if (!strcmp(which, "blankfill")) {
        for (int ndest = 0; ndest <= MAXN; ndest++)
        for (int nm = 0; nm <= ndest; nm++)
        for (long code = 0; code < ipow3(nm); code++) {
            int size = ndest > nm + 1 ? ndest : nm + 1;   /* room for the string, its NUL, and ndest */
            unsigned char *d = gbuf(size);
            memset(d, 'z', size);
            content((char *) d, nm, code);
            d[nm] = '\0';
            ShroudStrBlankFill((char *) d, ndest);
            printf("blankfill %%d %%d %%ld ", ndest, nm, code); hex("", d - G, size + 2 * G); printf("\n");
            gfree(d);
        }
    } else if (!strcmp(which, "lentrim")) {
        for (int nsrc = 0; nsrc <= MAXN; nsrc++)
        for (long code = 0; code < ipow3(nsrc); code++) {
            char *s = (char *) malloc(nsrc ? nsrc : 1);
            content(s, nsrc, code);
            printf("lentrim %%d %%ld %%d\n", nsrc, code, ShroudLenTrim(s, nsrc));
            free(s);
        }
    } else if (!strcmp(which, "alloc")) {
        for (int nsrc = 0; nsrc <= MAXN; nsrc++)
        for (long code = 0; code < ipow3(nsrc); code++)
        for (int ntrim = -1; ntrim <= nsrc; ntrim++) {
            char *s = (char *) malloc(nsrc ? nsrc : 1);
            content(s, nsrc, code);
            char *rv = ShroudStrAlloc(s, nsrc, ntrim);
            printf("alloc %%d %%ld %%d %%d ", nsrc, code, ntrim, (int) strlen(rv)); hex("", (unsigned char *) rv, (int) strlen(rv)); printf("\n");
            ShroudStrFree(rv);
            free(s);
        }
    } else if (!strcmp(which, "arrayalloc")) {
        int M = MAXN > 3 ? 3 : MAXN;
        for (int nsrc = 0; nsrc <= M; nsrc++)
        for (int len = 0; len <= M; len++)
        for (long code = 0; code < ipow3(nsrc * len); code++) {
            char *s = (char *) malloc(nsrc * len ? nsrc * len : 1);
            content(s, nsrc * len, code);
            char **rv = ShroudStrArrayAlloc(s, nsrc, len);
            printf("arrayalloc %%d %%d %%ld", nsrc, len, code);
            for (int i = 0; i < nsrc; i++) { printf(" %%d:", (int) strlen(rv[i])); hex("", (unsigned char *) rv[i], (int) strlen(rv[i])); }
            printf("\n");
            ShroudStrArrayFree(rv, nsrc);
            free(s);
        }
    }
#ifdef __cplusplus
    else if (!strcmp(which, "toarray")) {
        for (int n = 0; n <= MAXN; n++)
        for (long code = 0; code < ipow3(n); code++) {
            char tmp[16]; content(tmp, n, code);
            std::string *str = new std::string(tmp, n);
            NON_SHROUD_array arr; memset(&arr, 0x55, sizeof(arr));
            ShroudStrToArray(&arr, str, 7);
            printf("toarray %%d %%ld %%d %%d %%d %%d %%d %%d\n", n, code, (int) arr.elem_len, (int) arr.size, arr.rank,
                   arr.cxx.idtor, arr.cxx.addr == (void *) str, n == 0 ? arr.addr.ccharp == NULL : arr.addr.ccharp == str->data());
            delete str;
        }
    } else if (!strcmp(which, "copystring")) {
        for (int elem = 0; elem <= MAXN; elem++)
        for (int clen = 0; clen <= MAXN; clen++)
        for (long code = 0; code < ipow3(elem); code++) {
            char *src = (char *) malloc(elem ? elem : 1);
            content(src, elem, code);
            NON_SHROUD_array arr; memset(&arr, 0, sizeof(arr));
            arr.addr.ccharp = elem ? src : NULL;   /* ShroudStrToArray stores NULL for an empty string */
            arr.elem_len = elem; arr.size = 1; arr.cxx.addr = src; arr.cxx.idtor = 1;
            unsigned char *d = gbuf(clen);
            memset(d, 'z', clen);
            int before = ndtor;
            NON_ShroudCopyStringAndFree(&arr, (char *) d, clen);
            printf("copystring %%d %%d %%ld %%d ", elem, clen, code, ndtor - before); hex("", d - G, clen + 2 * G); printf("\n");
            gfree(d); free(src);
        }
    }
#endif
    return 0;
}
"""


def cont(n, code):
    out = []
    for _ in range(n):
        out.append(ALPHA[code % 3])
        code //= 3
    return "".join(out)


def hx(b):
    return "".join("%02x" % x for x in b)


G = b"\xee" * 4


def reference(which, maxn, cxx):
    """Byte-exact reference output, same enumeration order as the harness."""
    out = []
    if which == "copy":
        for ndest in range(maxn + 1):
            out.append("copy %d null 0 %s" % (ndest, hx(G + b" " * ndest + G)))
            for mode in (0, 1):
                for nsrc in range(maxn + 1):
                    for code in range(3 ** nsrc):
                        s = cont(nsrc, code).encode()
                        d = (s[:ndest] + b" " * ndest)[:ndest]
                        out.append("copy %d %d %d %d %s" % (ndest, nsrc, code, mode, hx(G + d + G)))
    elif which == "blankfill":
        for ndest in range(maxn + 1):
            for nm in range(ndest + 1):
                for code in range(3 ** nm):
                    s = cont(nm, code).encode()
                    size = max(ndest, nm + 1)
                    buf = bytearray(b"z" * size)
                    buf[:nm] = s
                    buf[nm] = 0
                    for i in range(nm, ndest):
                        buf[i] = 0x20
                    out.append("blankfill %d %d %d %s" % (ndest, nm, code, hx(G + bytes(buf) + G)))
    elif which == "lentrim":
        for nsrc in range(maxn + 1):
            for code in range(3 ** nsrc):
                out.append("lentrim %d %d %d" % (nsrc, code, len(cont(nsrc, code).rstrip(" "))))
    elif which == "alloc":
        for nsrc in range(maxn + 1):
            for code in range(3 ** nsrc):
                s = cont(nsrc, code)
                for ntrim in range(-1, nsrc + 1):
                    r = s.rstrip(" ") if ntrim == -1 else s[:ntrim]
                    out.append("alloc %d %d %d %d %s" % (nsrc, code, ntrim, len(r), hx(r.encode())))
    elif which == "arrayalloc":
        m = min(3, maxn)
        for nsrc in range(m + 1):
            for ln in range(m + 1):
                for code in range(3 ** (nsrc * ln)):
                    s = cont(nsrc * ln, code)
                    parts = [s[i * ln:(i + 1) * ln].rstrip(" ") for i in range(nsrc)]
                    out.append("arrayalloc %d %d %d" % (nsrc, ln, code) + "".join(" %d:%s" % (len(p), hx(p.encode())) for p in parts))
    elif which == "toarray":
        for n in range(maxn + 1):
            for code in range(3 ** n):
                out.append("toarray %d %d %d 1 0 7 1 1" % (n, code, n))
    elif which == "copystring":
        for elem in range(maxn + 1):
            for clen in range(maxn + 1):
                for code in range(3 ** elem):
                    s = cont(elem, code).encode()
                    n = min(elem, clen)
                    d = s[:n] + b"z" * (clen - n)
                    out.append("copystring %d %d %d 1 %s" % (elem, clen, code, hx(G + d + G)))
    return out


def build_and_run(args):
    workdir, lang, san, maxn, helpers_text = args
    os.makedirs(workdir, exist_ok=True)
    h = extract_helpers(helpers_text)
    names = ["ShroudLenTrim", "ShroudStrAlloc", "ShroudStrArrayAlloc", "ShroudStrArrayFree", "ShroudStrBlankFill",
             "ShroudStrCopy", "ShroudStrFree"]
    if lang == "cxx":
        names += ["ShroudStrToArray", "copy_string"]
    typedefs = h[("capsule_data_helper", "source")] + h[("array_context", "source")]
    src = HARNESS % {"typedefs": typedefs, "helpers": "\n".join(helper_src(h, n, lang) for n in names)}
    fn = os.path.join(workdir, "h.%s" % ("c" if lang == "c" else "cpp"))
    with open(fn, "w") as fp:
        fp.write(src)
    exe = os.path.join(workdir, "h")
    cc = ["gcc", "-std=c99"] if lang == "c" else ["g++", "-std=c++11"]
    flags = ["-g", "-O1"] + (["-fsanitize=address", "-fno-omit-frame-pointer"] if san else [])
    p = subprocess.run(cc + flags + ["-o", exe, fn], capture_output=True, text=True, errors="replace")
    if p.returncode != 0:
        shutil.rmtree(workdir, ignore_errors=True)
        return [("build", lang, san, "helper source does not compile: " + p.stderr[:600], 0)]
    res = []
    whiches = ["copy", "blankfill", "lentrim", "alloc", "arrayalloc"] + (["toarray", "copystring"] if lang == "cxx" else [])
    env = dict(os.environ, ASAN_OPTIONS="detect_leaks=1:abort_on_error=0:exitcode=99")
    for w in whiches:
        p = subprocess.run([exe, str(maxn), w], capture_output=True, text=True, errors="replace", env=env)
        got = p.stdout.split("\n")
        if got and got[-1] == "":
            got.pop()
        want = reference(w, maxn, lang == "cxx")
        err = None
        if p.returncode != 0:
            err = "helper crashed or was flagged by the sanitizer (exit %d): %s" % (p.returncode, (p.stderr or "")[:500].replace("\n", " | "))
        else:
            for i, (a, b) in enumerate(zip(got, want)):
                if a != b:
                    err = "first difference: got %r, documented rule gives %r" % (a, b)
                    break
            if err is None and len(got) != len(want):
                err = "%d result lines, expected %d" % (len(got), len(want))
        res.append((w, lang, san, err, len(want)))
    shutil.rmtree(workdir, ignore_errors=True)
    return res


def get_helpers_text(ctx):
    d = ctx.subdir("helpers")
    with open(os.path.join(d, "none.yaml"), "w") as fp:
        fp.write("library: none\n")
    r = isolate.shroud_cli(["--write-helpers", "helpers", "--logdir", d, "--outdir", d, "none.yaml"], cwd=d)
    if r.status != "ok":
        raise RuntimeError("shroud --write-helpers failed: %s" % r.msg)
    with open(os.path.join(d, "helpers.c")) as fp:
        return fp.read()


def run(ctx):
    quick = ctx.tier == "quick"
    maxn = 5 if quick else 7
    text = get_helpers_text(ctx)
    wd = ctx.subdir("w")
    jobs = [(os.path.join(wd, "%s-%d" % (lang, san)), lang, san, maxn if not san else min(maxn, 6), text)
            for lang in ("c", "cxx") for san in (0, 1)]
    res = isolate.pmap(build_and_run, jobs, ctx.workers)
    total = 0
    for part in res:
        for w, lang, san, err, n in part:
            total += n
            ctx.outcome("helper %s" % ("ok" if not err else "bad"))
            ctx.part("helper %s" % w, **{"%s%s_cases" % (lang, "_asan" if san else ""): n})
            if err:
                ctx.violation("helper %s %s" % (w, lang), "%s (%s%s): %s" % (w, lang, ", AddressSanitizer build" if san else "", err),
                              {"helper": w, "lang": lang, "asan": san})
    ctx.count(states=total, transitions=total, validated=total)
    ctx.nontrivial_n(total)
    ctx.sample({"helper": "ShroudStrCopy", "ndest": 3, "nsrc": 5, "content": "ab ab"})
    ctx.sample({"helper": "ShroudStrBlankFill", "ndest": 4, "string": "a "})
    # ---- end to end
    from . import strings_e2e

    strings_e2e.run_into(ctx)
    ctx.cov["rule"] = ("helper level: every (destination length, source length, content over {a,b,blank}) up to %d for ShroudStrCopy (NULL, explicit "
                      "length, NUL terminated), ShroudStrBlankFill, ShroudLenTrim, ShroudStrAlloc/Free, ShroudStrArrayAlloc/Free, ShroudStrToArray and the "
                      "copy_string helper, C and C++ variants, plain and AddressSanitizer builds with exact-size heap buffers and guard bytes; "
                      "end to end: see parts 'e2e'" % maxn)
    ctx.cov["bounds"] = {"max_length": maxn}
    ctx.assumptions += ["preconditions per helper as its call sites establish them (BlankFill: a NUL within the buffer; StrCopy: nsrc bytes readable or NUL terminated)"]


def replay(ctx, path):
    with open(path) as fp:
        p = json.load(fp)["payload"]
    print(p)
    ctx.count(states=1, transitions=1)
