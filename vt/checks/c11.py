"""C11 - enumeration constants keep their C++ values in C and Fortran.

Every enumeration with 1..3 members over the accepted expression grammar (bounded depth) is
declared to shroud; the values are then obtained four ways - g++ on the original declaration,
gcc on the generated C header, gfortran on the generated module, and a Python model of C++
enumerator semantics - and must agree for every enumerator.
"""
from __future__ import annotations

import itertools
import json
import os
import re
import shutil
import subprocess

from .. import gen, isolate

LITS = ["0", "1", "2", "7"]
OPS = ["+", "-", "*", "/"]


def exprs(prev, level):
    """Expression texts over literals and earlier member names."""
    atoms = LITS + list(prev)
    out = list(atoms)
    out += ["-" + a for a in atoms] + ["+" + a for a in atoms[:2] + list(prev)]
    out += ["(" + a + ")" for a in ["1"] + list(prev)]
    small = ["1", "2", "7"] + list(prev)
    out += ["%s %s %s" % (a, op, b) for a in small for op in OPS for b in small]
    # a parenthesised right operand: the grouping changes the value for every operator pair but + +, * *
    tail = (list(prev)[-1:] or ["2"])[0]
    out += ["7 %s (%s %s 2)" % (o1, tail, o2) for o1 in OPS for o2 in OPS] + ["7 * (7 / 2)", "7 / (2 / 7 + 1)", "(7 / 2) * 2", "7 / 2 * 2"]
    out += ["2 - -2", "7 + +1", "2 * -7", "-7 / -2", "1 - -(2)"] + ["%s %s -%s" % (p, op, p) for p in prev for op in ("-", "*")]
    if level >= 2:
        s2 = ["2"] + list(prev)[-1:] if prev else ["2", "7"]
        out += ["%s %s -%s" % (a, op, b) for a in s2 for op in OPS for b in s2]
        out += ["-%s %s %s" % (a, op, b) for a in s2 for op in OPS for b in s2]
        out += ["-(%s %s %s)" % (a, op, b) for a in s2 for op in OPS for b in s2]
        out += ["(%s %s %s) %s %s" % (a, o1, b, o2, c) for a in s2 for o1 in OPS for b in ["1"] + s2[-1:] for o2 in OPS for c in ["2", "7"]]
        out += ["%s %s (%s %s %s)" % (a, o1, b, o2, c) for a in ["7"] + s2[-1:] for o1 in OPS for b in s2 for o2 in ("+", "-", "*") for c in ["1", "2"]]
        out += ["%s %s %s %s %s" % (a, o1, b, o2, c) for a in s2 for o1 in OPS for b in ["1", "7"] for o2 in OPS for c in s2]
    seen = set()
    res = []
    for e in out:
        if e not in seen:
            seen.add(e)
            res.append(e)
    return res


def cdiv(a, b):
    q = abs(a) // abs(b)
    return q if (a >= 0) == (b >= 0) else -q


def evaluate(expr, env):
    """C++ integer semantics."""
    toks = re.findall(r"\d+|[A-Za-z_]\w*|[-+*/()]", expr)
    pos = [0]

    def peek():
        return toks[pos[0]] if pos[0] < len(toks) else None

    def nxt():
        pos[0] += 1
        return toks[pos[0] - 1]

    def primary():
        t = nxt()
        if t == "(":
            v = addsub()
            nxt()
            return v
        if t == "-":
            return -primary()
        if t == "+":
            return primary()
        if t.isdigit():
            return int(t, 8) if (len(t) > 1 and t[0] == "0") else int(t)  # a leading 0 makes a C literal octal
        return env[t]

    def muldiv():
        v = primary()
        while peek() in ("*", "/"):
            op = nxt()
            r = primary()
            if op == "*":
                v = v * r
            else:
                if r == 0:
                    raise ZeroDivisionError()
                v = cdiv(v, r)
        return v

    def addsub():
        v = muldiv()
        while peek() in ("+", "-"):
            op = nxt()
            r = muldiv()
            v = v + r if op == "+" else v - r
        return v

    return addsub()


def enum_specs(level):
    """[(list of member value texts or None)]"""
    specs = []
    # one member
    specs.append([None])
    for e in exprs([], level):
        specs.append([e])
    # two members: first from a small set, second anything (may refer to the first)
    firsts = [None, "1", "-2", "7", "2 * 7"]
    for f in firsts:
        specs.append([f, None])
        for e in exprs(["@0"], level):
            specs.append([f, e])
    # three members
    seconds = [None, "@0 + 2", "-1", "@0 * 2", "@0", "(@0)", "-@0"]
    thirds = [None] + [e for e in exprs(["@0", "@1"], 1) if "@" in e][:: (1 if level >= 2 else 3)] + ["7", "-7", "(1)"]
    for f in ([None, "2", "-2", "1 + 1", "(2)"] if level >= 2 else [None, "2", "1 + 1"]):
        for s in seconds:
            for t in thirds:
                specs.append([f, s, t])
    # doubly nested groups: a parenthesised group whose contents begin and end with a parenthesised group
    for f in ("3", "-5"):
        for e in ("2 * ((@0 - 1) + (@0 - 2))", "@0 - ((@0) - (1))", "((@0 + 1)) * 2", "((@0 + 1) * (@0 - 1))", "7 - ((2) + (@0))", "((@0))", "-((@0 - 1) - (2))",
                  "(((@0 - 1)) + ((2)))* 3", "12 / ((@0 + 1) + (2))"):
            specs.append([f, e, None])
    # literal spellings and doubled signs
    for e in (["010"], ["07", None], ["017", None, "@0 + 1"], ["1", "@0 + 010"], ["1", "010 * @0", None], ["1", "@0 - -@0 * 2"], ["2", "@0 + +@0"], ["2", "- -@0"], ["2", "-(-@0)"], ["2", "+ -@0"], ["0"], ["00"]):
        specs.append(e)
    # a sign in front of an octal literal as the whole value
    for e in (["-010", None], ["+017", None, "@0 - 1"], ["-07"], ["1", "-010", None], ["-00", None]):
        specs.append(e)
    # the ends of the int range and their neighbours (an enumeration without a fixed type holds int values): as a literal, as the
    # member an implicit successor counts on from, and inside an expression
    for e in (["2147483647"], ["-2147483647"], ["-2147483647", None], ["2147483646", None], ["-2147483647 - 1", None], ["-2147483647 - 1", None, None],
              ["-2147483646", "@0 - 1"], ["1", "-2147483647", "@1 + 1"], ["2147483647", "-@0"], ["2147483647", "-@0", None], ["-2147483646", "@0 - 1", "@1 - 1"],
              ["65535", "@0 * 32768"], ["-32768", "@0 * 65535"], ["32767", None], ["-32768", None], ["255", None], ["-128", None], ["-127", None]):
        specs.append(e)
    # a signed operand in the middle of a chain of three: the grouping of the chain decides what the sign's operand is
    for o1 in OPS:
        for sg in ("-", "+"):
            for o2 in OPS:
                for b in ("2", "@0"):
                    specs.append(["5", "17 %s %s%s %s 3" % (o1, sg, b, o2), None])
                specs.append(["5", "@0 %s %s(2) %s @0" % (o1, sg, o2)])
    # four and five members: every mix of implicit / literal / expression-valued members, so that the
    # running "last explicit value + offset" state of the emitters is exercised across several resets
    kinds = [lambda i: None, lambda i: str(3 * i + 1), lambda i: ("@%d + 1" % (i - 1)) if i else "1 + 1",
             lambda i: ("@%d * 2" % (i - 1)) if i else "(2)", lambda i: ("-(@0 + %d)" % i) if i else "-(3)"]
    for n in ((4, 5) if level >= 2 else (4,)):
        ks = kinds if n == 4 else kinds[:4]
        for combo in itertools.product(range(len(ks)), repeat=n):
            if level < 2 and n == 4 and sum(1 for c in combo if c >= 2) < 2:
                continue  # quick: at least two expression-valued members
            specs.append([ks[c](i) for i, c in enumerate(combo)])
    return specs


def model_values(spec, names):
    env = {}
    vals = []
    cur = -1
    for nm, txt in zip(names, spec):
        if txt is None:
            cur = cur + 1
        else:
            cur = evaluate(txt, env)
        env[nm] = cur
        vals.append(cur)
    return vals


SCOPES = ["library", "namespace", "class"]


def build_library(specs, scope, scoped, base_index):
    """-> (yaml dict, C++ header text, [(k, names, spec, model values)])"""
    decls = []
    cxx = []
    info = []
    for i, spec in enumerate(specs):
        k = base_index + i
        ename = "E%d" % k
        names = ["%s_%s" % (ename, "abcde"[j]) for j in range(len(spec))]
        body = []
        sp2 = []
        for nm, txt in zip(names, spec):
            if txt is not None:
                for j in range(len(names)):
                    txt = txt.replace("@%d" % j, names[j])
                body.append("%s = %s" % (nm, txt))
            else:
                body.append(nm)
            sp2.append(txt)
        try:
            vals = model_values(sp2, names)
        except ZeroDivisionError:
            continue
        if any(v > 2 ** 31 - 1 or v < -2 ** 31 for v in vals):
            continue  # not an int enumeration any more
        text = "enum %s%s { %s }" % ("class " if scoped else "", ename, ", ".join(body))
        decls.append({"decl": text})
        cxx.append(text + ";")
        info.append((k, ename, names, sp2, vals))
    if scope == "library":
        top = decls
        hdr = "\n".join(cxx)
    elif scope == "namespace":
        top = [{"decl": "namespace ns", "declarations": decls}]
        hdr = "namespace ns {\n%s\n}" % "\n".join(cxx)
    else:
        top = [{"decl": "class Cls", "declarations": decls}]
        hdr = "class Cls {\npublic:\n%s\n};" % "\n".join(cxx)
    y = {"library": "Enums", "cxx_header": "enums.hpp", "declarations": top}
    return y, hdr + "\n", info


def run_cmd(cmd, cwd):
    p = subprocess.run(cmd, cwd=cwd, capture_output=True, text=True, errors="replace")
    return p.returncode, p.stdout, p.stderr


def library_case(args):
    workdir, specs, scope, scoped, base_index = args
    y, hdr, info = build_library(specs, scope, scoped, base_index)
    r, tree = gen.gen_tree(workdir, y, keep=True)
    out = os.path.join(workdir, "out")
    results = {"n": len(info), "errs": [], "checked": 0}
    if r.status != "ok":
        results["errs"].append(("generation", "shroud failed: %s %s: %s" % (r.status, r.exc, (r.msg or "")[:300]), None))
        shutil.rmtree(workdir, ignore_errors=True)
        return results
    byk = {k: (ename, names, sp, vals) for k, ename, names, sp, vals in info}
    qual = {"library": "", "namespace": "ns::", "class": "Cls::"}[scope]
    # ---- C++ on the original
    with open(os.path.join(workdir, "enums.hpp"), "w") as fp:
        fp.write(hdr)
    lines = ['#include <cstdio>', '#include "enums.hpp"', "int main() {"]
    for k, ename, names, sp, vals in info:
        for j, nm in enumerate(names):
            ref = "%s%s::%s" % (qual, ename, nm) if scoped else "%s%s" % (qual, nm)
            lines.append('  std::printf("%d %d %%d\\n", static_cast<int>(%s));' % (k, j, ref))
    lines.append("  return 0; }")
    with open(os.path.join(workdir, "orig.cpp"), "w") as fp:
        fp.write("\n".join(lines) + "\n")
    rc, so, se = run_cmd(["g++", "-std=c++11", "-o", "orig", "orig.cpp"], workdir)
    if rc != 0:
        results["errs"].append(("harness", "g++ rejects the original declarations: " + se[:400], None))
        shutil.rmtree(workdir, ignore_errors=True)
        return results
    cxx_vals = {}
    for ln in run_cmd(["./orig"], workdir)[1].split("\n"):
        if ln.strip():
            a, b, c = ln.split()
            cxx_vals[(int(a), int(b))] = int(c)
    # ---- C on the generated headers
    headers = sorted(f for f in os.listdir(out) if f.startswith("wrap") and f.endswith(".h"))
    c_members = {}
    c_line = {}
    for h in headers:
        text = open(os.path.join(out, h)).read()
        for m in re.finditer(r"enum\s+(\w+)\s*\{(.*?)\};", text, re.S):
            mk = re.search(r"E(\d+)$", m.group(1))
            if not mk:
                continue
            mem = [x.strip().split("=")[0].strip() for x in m.group(2).split(",") if x.strip()]
            c_members[int(mk.group(1))] = mem
    lines = ["#include <stdio.h>"] + ['#include "out/%s"' % h for h in headers] + ["int main(void) {"]
    for k in sorted(c_members):
        for j, nm in enumerate(c_members[k]):
            lines.append('  printf("%d %d %%d\\n", (int)%s);' % (k, j, nm))
    lines.append("  return 0; }")
    with open(os.path.join(workdir, "gen.c"), "w") as fp:
        fp.write("\n".join(lines) + "\n")
    c_vals = {}
    rc, so, se = run_cmd(["gcc", "-std=c99", "-Iout", "-o", "genc", "gen.c"], workdir)
    c_bad = {}
    if rc != 0:
        # attribute the error to the enums whose header lines are named
        for m in re.finditer(r"(out/\S+\.h):(\d+):\d+: error: (.*)", se):
            hl = open(os.path.join(workdir, m.group(1))).read().split("\n")
            ln = int(m.group(2)) - 1
            blk = " ".join(hl[max(0, ln - 4): ln + 1])
            mk = re.findall(r"E(\d+)_", blk)
            if mk:
                c_bad.setdefault(int(mk[-1]), "generated C header does not compile: %s  [%s]" % (m.group(3), hl[ln].strip()))
        if not c_bad:
            results["errs"].append(("c-header", "generated C header does not compile: " + se[:400], None))
    else:
        for ln in run_cmd(["./genc"], workdir)[1].split("\n"):
            if ln.strip():
                a, b, c = ln.split()
                c_vals[(int(a), int(b))] = int(c)
    # ---- Fortran on the generated modules
    fmods = sorted(f for f in os.listdir(out) if f.endswith(".f"))
    f_members = {}
    modnames = []
    for f in fmods:
        text = open(os.path.join(out, f)).read()
        mm = re.search(r"^module (\w+)", text, re.M)
        modnames.append(mm.group(1))
        for m in re.finditer(r"parameter :: (\w+) =", text):
            mk = re.search(r"e(\d+)_([abcde])$", m.group(1))
            if mk:
                f_members.setdefault(int(mk.group(1)), []).append(m.group(1))
    lines = ["program p"] + ["  use %s" % m for m in modnames] + ["  implicit none"]
    for k in sorted(f_members):
        for j, nm in enumerate(f_members[k]):
            lines.append("  print '(I0,1X,I0,1X,I0)', %d, %d, %s" % (k, j, nm))
    lines.append("end program p")
    with open(os.path.join(workdir, "genf.f90"), "w") as fp:
        fp.write("\n".join(lines) + "\n")
    f_vals = {}
    f_bad = {}
    ok = True
    for f in fmods:
        rc, so, se = run_cmd(["gfortran", "-cpp", "-ffree-form", "-c", os.path.join("out", f)], workdir)
        if rc != 0:
            ok = False
            hl = open(os.path.join(out, f)).read().split("\n")
            for m in re.finditer(r"\.f:(\d+):\d+:\s*\n\n\s*\d+ \|(.*)\n[^\n]*\n(Error: [^\n]*)", se):
                mk = re.findall(r"e(\d+)_[abcde] =", m.group(2))
                if mk:
                    f_bad.setdefault(int(mk[0]), "generated Fortran module does not compile: %s  [%s]" % (m.group(3), m.group(2).strip()))
            if not f_bad:
                results["errs"].append(("f-module", "generated Fortran module does not compile: " + se[:500], None))
    if ok:
        rc, so, se = run_cmd(["gfortran", "-o", "genf", "genf.f90"] + [f.replace(".f", ".o") for f in fmods], workdir)
        if rc != 0:
            results["errs"].append(("harness", "Fortran driver does not link: " + se[:300], None))
        else:
            for ln in run_cmd(["./genf"], workdir)[1].split("\n"):
                if ln.strip():
                    a, b, c = ln.split()
                    f_vals[(int(a), int(b))] = int(c)
    # ---- four-way agreement
    for k, (ename, names, sp, vals) in byk.items():
        text = "enum %s%s { %s }" % ("class " if scoped else "", ename, ", ".join(
            n if t is None else "%s = %s" % (n, t) for n, t in zip(names, sp)))
        generic = re.sub(r"E\d+", "E", text)
        if k in c_bad:
            results["errs"].append(("c-compile", "%s at %s scope: %s" % (text, scope, c_bad[k]), generic))
            continue
        if k in f_bad:
            results["errs"].append(("f-compile", "%s at %s scope: %s" % (text, scope, f_bad[k]), generic))
            continue
        for j, v in enumerate(vals):
            got = {"model": v, "c++": cxx_vals.get((k, j)), "c": c_vals.get((k, j)) if not c_bad else c_vals.get((k, j), v),
                   "fortran": f_vals.get((k, j)) if ok else v}
            if c_bad and (k, j) not in c_vals:
                got["c"] = v  # header failed for another enum: not attributable here
            if len(set(got.values())) != 1:
                results["errs"].append(("value", "%s at %s scope: member %s is %s" % (text, scope, names[j], got), generic))
                break
        results["checked"] += 1
    shutil.rmtree(workdir, ignore_errors=True)
    return results


# ---------------------------------------------------------------- two enumerations that share member names
def shared_names_case(args):
    """Two enums in one scope with a common member name (legal when at least one is scoped); the later one's
    expressions refer to ITS OWN member.  Values by position: g++ on the original, gcc on the generated header,
    gfortran on the generated module, the model."""
    workdir, scope, first_scoped, second_scoped = args
    e1 = [("RED", "10"), ("GREEN", None), ("BLUE", "RED * 2")]
    e2 = [("RED", "1"), ("DARK", "RED + 1"), ("DARKER", None), ("PALE", "DARK * 4"), ("GREEN", "-RED")]
    def text(name, scoped, mem):
        return "enum %s%s { %s }" % ("class " if scoped else "", name, ", ".join(n if v is None else "%s = %s" % (n, v) for n, v in mem))
    enums = [("Color", first_scoped, e1), ("Shade", second_scoped, e2)]
    decls = [{"decl": text(n, sc, mem)} for n, sc, mem in enums]
    cxx = [text(n, sc, mem) + ";" for n, sc, mem in enums]
    if scope == "library":
        top, hdr, qual = decls, "\n".join(cxx), ""
    elif scope == "namespace":
        top, hdr, qual = [{"decl": "namespace ns", "declarations": decls}], "namespace ns {\n%s\n}" % "\n".join(cxx), "ns::"
    else:
        top, hdr, qual = [{"decl": "class Cls", "declarations": decls}], "class Cls {\npublic:\n%s\n};" % "\n".join(cxx), "Cls::"
    y = {"library": "Enums", "cxx_header": "enums.hpp", "declarations": top}
    label = "%s then %s at %s scope" % (text(*enums[0]), text(*enums[1]), scope)
    r, tree = gen.gen_tree(workdir, y, keep=True)
    if r.status != "ok":
        shutil.rmtree(workdir, ignore_errors=True)
        return label, "shroud failed: %s %s: %s" % (r.status, r.exc, (r.msg or "")[:200])
    out = os.path.join(workdir, "out")
    model = []
    for n, sc, mem in enums:
        env, cur = {}, -1
        for nm, v in mem:
            cur = cur + 1 if v is None else evaluate(v, env)
            env[nm] = cur
            model.append(cur)
    # C++
    with open(os.path.join(workdir, "enums.hpp"), "w") as fp:
        fp.write(hdr + "\n")
    lines = ["#include <cstdio>", '#include "enums.hpp"', "int main() {"]
    for n, sc, mem in enums:
        for nm, _ in mem:
            lines.append('  std::printf("%%d\\n", static_cast<int>(%s%s%s));' % (qual, (n + "::") if sc else "", nm))
    lines.append("  return 0; }")
    open(os.path.join(workdir, "orig.cpp"), "w").write("\n".join(lines) + "\n")
    rc, so, se = run_cmd(["g++", "-std=c++11", "-o", "orig", "orig.cpp"], workdir)
    if rc != 0:
        shutil.rmtree(workdir, ignore_errors=True)
        raise RuntimeError("harness: g++ rejects %s: %s" % (label, se[:300]))
    cxxv = [int(x) for x in run_cmd(["./orig"], workdir)[1].split()]
    # C
    cnames = []
    headers = sorted(f for f in os.listdir(out) if f.startswith("wrap") and f.endswith(".h"))
    blocks = {}
    for h in headers:
        for m in re.finditer(r"enum\s+(\w+)\s*\{(.*?)\};", open(os.path.join(out, h)).read(), re.S):
            blocks[m.group(1)] = [x.strip().split("=")[0].strip() for x in m.group(2).split(",") if x.strip()]
    for n, sc, mem in enums:
        blk = [v for k, v in blocks.items() if k.endswith(n)]
        cnames += blk[0] if blk else []
    lines = ["#include <stdio.h>"] + ['#include "out/%s"' % h for h in headers] + ["int main(void) {"] + ['  printf("%%d\\n", (int)%s);' % nm for nm in cnames] + ["  return 0; }"]
    open(os.path.join(workdir, "gen.c"), "w").write("\n".join(lines) + "\n")
    rc, so, se = run_cmd(["gcc", "-std=c99", "-Iout", "-o", "genc", "gen.c"], workdir)
    if rc != 0:
        shutil.rmtree(workdir, ignore_errors=True)
        return label, "the generated C header does not compile: " + se[:300]
    cv = [int(x) for x in run_cmd(["./genc"], workdir)[1].split()]
    # Fortran
    fmods = sorted(f for f in os.listdir(out) if f.endswith(".f"))
    fnames, mods = [], []
    for f in fmods:
        t = open(os.path.join(out, f)).read()
        mods.append(re.search(r"^module (\w+)", t, re.M).group(1))
        fnames += re.findall(r"parameter :: (\w+) =", t)
    lines = ["program p"] + ["  use %s" % m for m in mods] + ["  implicit none"] + ["  print '(I0)', %s" % nm for nm in fnames] + ["end program p"]
    open(os.path.join(workdir, "genf.f90"), "w").write("\n".join(lines) + "\n")
    for f in fmods:
        rc, so, se = run_cmd(["gfortran", "-cpp", "-ffree-form", "-c", os.path.join("out", f)], workdir)
        if rc != 0:
            shutil.rmtree(workdir, ignore_errors=True)
            return label, "the generated Fortran module does not compile: " + se[:300]
    rc, so, se = run_cmd(["gfortran", "-o", "genf", "genf.f90"] + [f.replace(".f", ".o") for f in fmods], workdir)
    fv = [int(x) for x in run_cmd(["./genf"], workdir)[1].split()] if rc == 0 else []
    shutil.rmtree(workdir, ignore_errors=True)
    if not (model == cxxv == cv == fv):
        return label, "values by position: model %s, C++ %s, C header %s (%s), Fortran module %s (%s)" % (model, cxxv, cv, cnames, fv, fnames)
    return label, None


def run(ctx):
    quick = ctx.tier == "quick"
    W = ctx.workers
    wd = ctx.subdir("w")
    specs = enum_specs(1 if quick else 2)
    ctx.rng.shuffle(specs)
    per = 150
    jobs = []
    for scope in SCOPES:
        for scoped in (False, True):
            if quick and scope != "library" and scoped:
                sub = specs[::4]
            elif quick and scope != "library":
                sub = specs[::2]
            else:
                sub = specs
            for b in range(0, len(sub), per):
                jobs.append((os.path.join(wd, "j%d" % len(jobs)), sub[b:b + per], scope, scoped, b))
    res = isolate.pmap(library_case, jobs, W)
    n = 0
    for r in res:
        n += r["n"]
        ctx.outcome("enums agreed", r["checked"])
        for kind, what, generic in r["errs"]:
            ctx.outcome("enum " + kind)
            if kind == "harness":
                raise RuntimeError(what)
            ctx.violation(key_for(kind, generic or what), what, {"kind": kind, "what": what})
    sjobs = [(os.path.join(wd, "s%d" % i), scope, a, b) for i, (scope, (a, b)) in enumerate(
        itertools.product(SCOPES, [(False, True), (True, False), (True, True)]))]
    for label, err in isolate.pmap(shared_names_case, sjobs, W):
        n += 2
        ctx.outcome("shared names %s" % ("ok" if not err else "bad"))
        if err:
            ctx.violation("enum shared-member-names %s" % re.sub(r"\s+", " ", label)[:120], "%s: %s" % (label, err), {"kind": "shared", "label": label})
    ctx.count(states=n, transitions=4 * n, validated=n)
    ctx.nontrivial_n(n)
    ctx.part("enums", declarations=n, libraries=len(jobs), specs=len(specs), scopes=SCOPES, plain_and_scoped=True)
    ctx.sample({"enum": "enum E { E_a = 2, E_b = E_a * 2, E_c }", "scope": "class"})
    ctx.sample({"enum": "enum class E { E_a = -(2 + 7), E_b }", "scope": "namespace"})
    ctx.cov["rule"] = ("every enumeration of 1-3 members whose explicit values come from the bounded expression grammar (literals, unary +/-, "
                      "binary + - * /, parentheses, references to earlier members), plain and scoped, at library/namespace/class scope; "
                      "each enumerator's value from g++ (original), gcc (generated header), gfortran (generated module) and the model must agree")
    ctx.assumptions += ["gcc/g++/gfortran 12 as the meaning of the three languages", "division by zero excluded by evaluating the model first"]


def key_for(kind, generic):
    if kind in ("c-compile", "f-compile", "value") and re.search(r"[-+*/] [-+]\w", generic or ""):
        return "enum: binary operator followed by a unary sign"
    return "enum %s %s" % (kind, generic)


def replay(ctx, path):
    with open(path) as fp:
        p = json.load(fp)["payload"]
    print(p)
    ctx.count(states=1, transitions=1)
