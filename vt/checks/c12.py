"""C12 - user splicer code is carried into the named blocks unchanged.

(1) reader: every splicer file of <= N lines over a line alphabet through the real
    splicer.get_splicers versus a reference reader (explicit enumeration; the reference
    reader's states are counted);
(2) emitter: every splicer name of a small four-language library x body alphabet x supply
    way, regenerated with the real shroud, block text compared;
(3) round trip: every generated file fed back as a splicer file.
"""
from __future__ import annotations

import io
import itertools
import json
import os
import re
import shutil

import yaml

from .. import corpus, isolate, libs

# ------------------------------------------------------------------ (1) reader
LINES = [
    "// splicer begin X",
    "// splicer end X",
    "    // splicer begin A.B",
    "    // splicer end A.B",
    "! splicer begin A.C",
    "! splicer end A.C",
    "plain();",
    "    indented  = 1;  ",
    "",
    "// about splicers in general",
    "splicer begin X",
]
RE_BEGIN = re.compile(r"^(.+?)splicer begin\s+(\S+)")
RE_END = re.compile(r"^(.+?)splicer end\s+(\S+)")


def ref_reader(lines):
    """Reference reader from docs/input.rst.  Returns (dict, flags) or ('error', why).

    flags: set of block names whose content the documentation leaves open
    (unterminated at EOF; nested name given twice)."""
    out = {}
    open_q = set()
    cur = None
    body = None
    states = set()
    for ln in lines:
        states.add((cur, tuple(body) if body is not None else None, json.dumps(out, sort_keys=True)))
        if cur is None:
            m = RE_BEGIN.match(ln)
            if m:
                cur = m.group(2)
                body = []
            continue
        m = RE_END.match(ln)
        if m:
            if m.group(2) != cur:
                return ("error", "mismatch"), states
            parts = cur.split(".")
            d = out
            for p in parts[:-1]:
                d = d.setdefault(p, {})
            if parts[-1] in d:
                if len(parts) == 1:
                    return ("error", "duplicate"), states
                open_q.add(cur)  # nested duplicate: error or replacement both tolerated
            d[parts[-1]] = body
            cur = None
            body = None
        else:
            body.append(ln.rstrip())
    return (out, open_q), states


def run_reader(args):
    nlines, shard, nshards = args
    from shroud import splicer

    n = 0
    bad = []
    states = set()
    outcomes = {}
    splicer.open = None
    for idx, combo in enumerate(itertools.product(range(len(LINES)), repeat=nlines)):
        if idx % nshards != shard:
            continue
        lines = [LINES[i] for i in combo]
        text = "".join(l + "\n" for l in lines)
        splicer.open = lambda fname, mode="r", _t=text: io.StringIO(_t)
        got = {}
        try:
            splicer.get_splicers("mem.c", got)
            res = ("ok", got)
        except RuntimeError as e:
            res = ("diag", str(e))
        except Exception as e:  # noqa
            res = ("internal", "%s: %s" % (type(e).__name__, e))
        (exp, st) = ref_reader(lines)
        states |= st
        n += 1
        err = None
        if res[0] == "internal":
            err = "internal exception %s" % res[1]
            oc = "internal"
        elif exp[0] == "error":
            oc = "error:" + exp[1]
            if res[0] != "diag":
                err = "reference reader reports %s, shroud accepted %r" % (exp[1], res[1])
        else:
            want, open_q = exp
            oc = "blocks=%d" % sum(1 for _ in _leaves(want))
            if res[0] == "diag":
                if not open_q:
                    err = "shroud rejected a well-formed file: %s" % res[1]
            else:
                g = dict(_leaves(res[1]))
                w = dict(_leaves(want))
                if set(g) != set(w):
                    err = "blocks read %s, expected %s" % (sorted(g), sorted(w))
                else:
                    for k in w:
                        if k in open_q:
                            continue
                        if g[k] != w[k]:
                            err = "block %s read as %r, expected %r" % (k, g[k], w[k])
        outcomes[oc] = outcomes.get(oc, 0) + 1
        if err and len(bad) < 10:
            bad.append((lines, err))
    del splicer.open
    return n, bad, len(states), outcomes


def _leaves(d, prefix=""):
    for k, v in d.items():
        if isinstance(v, dict):
            for x in _leaves(v, prefix + k + "."):
                yield x
        else:
            yield prefix + k, v


# ------------------------------------------------------------------ (2) emitter
MARK = re.compile(r"^\s*(//|!|#)\s*splicer (begin|end) (\S+)\s*$")
LANG_OF_EXT = {".c": "c", ".cpp": "c", ".h": "c", ".hpp": "c", ".f": "f", ".lua": "lua", ".py": "py"}


def lang_of_file(fn):
    if fn.startswith("py") or fn == "setup.py":
        return "py"
    if fn.startswith("lua"):
        return "lua"
    if fn.endswith(".f"):
        return "f"
    if fn.endswith((".c", ".cpp", ".h", ".hpp")):
        return "c"
    return None


def blocks_of(text):
    """[(name, [lines])] for every begin/end pair, plus the text outside."""
    out = []
    cur = None
    body = None
    for ln in text.split("\n"):
        m = MARK.match(ln)
        if m and m.group(2) == "begin" and cur is None:
            cur = m.group(3)
            body = []
        elif m and m.group(2) == "end" and cur == m.group(3):
            out.append((cur, body))
            cur = None
        elif cur is not None:
            body.append(ln)
    return out


def tree_blocks(outdir):
    """{(lang, file, occurrence index, name): [lines]}"""
    res = {}
    for fn in sorted(os.listdir(outdir)):
        lang = lang_of_file(fn)
        if lang is None or fn.endswith((".json", ".log", ".yaml")):
            continue
        with open(os.path.join(outdir, fn)) as fp:
            text = fp.read()
        for i, (name, body) in enumerate(blocks_of(text)):
            res[(lang, fn, i, name)] = body
    return res


def squash(lines):
    """Text of a block the user did not touch, insensitive to re-wrapping of continuation lines."""
    return "".join(lines).replace(" ", "")


def norm(lines):
    return [l.strip(" ") for l in lines]


LONG = "call_a_function_with_a_rather_long_name(argument_number_one, argument_number_two, argument_number_three, 4);"
BODIES = {
    "one": ["user_code_1();"],
    "indented": ["  indented_line();", "second_line();"],
    "blank-middle": ["before();", "", "after();"],
    "braces": ["if (x) {", "  y();", "}"],
    "long": [LONG],
    "minus-inside": ["a = b - c;", "d = -e;"],
    "trailing-plus": ["x = a +", "b;"],
    "tab": ["int\tx = 1;"],
    "empty": [],  # a block the user deliberately leaves empty still replaces the default
}
QUICK_BODIES = ["one", "indented", "blank-middle", "braces", "long", "trailing-plus", "tab", "empty"]
EXT = {"c": ".c", "f": ".f", "py": ".py", "lua": ".lua"}
COMMENT = {"c": "//", "f": "!", "py": "//", "lua": "//"}


def nested(name, body):
    d = body
    for p in reversed(name.split(".")):
        d = {p: d}
    return d


def supply(way, lang, name, body, ydict):
    """-> (yaml dict, extra files, extra argv)"""
    y = json.loads(json.dumps(ydict))
    files = {}
    argv = []
    if way.startswith("cmdline-file."):
        # every file suffix the command line documents for the language
        fn = "user_splicer" + way[len("cmdline-file"):]
        files[fn] = "%s splicer begin %s\n%s%s splicer end %s\n" % (COMMENT[lang], name, "".join(ln + "\n" for ln in body), COMMENT[lang], name)
        argv = [fn]
    elif way in ("cmdline-file", "yaml-file"):
        fn = "user_splicer" + EXT[lang]
        files[fn] = "text outside is ignored\n%s splicer begin %s\n%s%s splicer end %s\ntrailing text\n" % (
            COMMENT[lang], name, "".join(ln + "\n" for ln in body), COMMENT[lang], name)
        if way == "cmdline-file":
            argv = [fn]
        else:
            y["splicer"] = {lang: [fn]}
    elif way == "splicer_code":
        y["splicer_code"] = {lang: nested(name, list(body))}
    return y, files, argv


def gen(workdir, ydict, files, argv):
    os.makedirs(workdir, exist_ok=True)
    out = os.path.join(workdir, "out")
    os.makedirs(out, exist_ok=True)
    with open(os.path.join(workdir, "lib.yaml"), "w") as fp:
        yaml.safe_dump(ydict, fp, default_flow_style=False, sort_keys=False)
    for fn, text in files.items():
        with open(os.path.join(workdir, fn), "w") as fp:
            fp.write(text)
    r = isolate.shroud_cli(["--outdir", "out", "--logdir", "out", "lib.yaml"] + argv, cwd=workdir)
    return out, r


def emit_case(args):
    workdir, ydict, way, lang, name, bodyname, base_blocks = args
    body = BODIES[bodyname]
    y, files, argv = supply(way, lang, name, body, ydict)
    out, r = gen(workdir, y, files, argv)
    err = None
    hit = 0
    if r.status != "ok":
        err = "shroud failed: %s %s" % (r.exc, r.msg)
    else:
        got = tree_blocks(out)
        if set(got) != set(base_blocks):
            a = sorted(set(got) ^ set(base_blocks))[:4]
            err = "set of blocks changed: %s" % a
        else:
            for k in sorted(got):
                if k[0] == lang and k[3] == name:
                    hit += 1
                    if norm(got[k]) != norm(body):
                        err = "block %s in %s holds %r, user supplied %r" % (name, k[1], got[k], body)
                        break
                elif squash(got[k]) != squash(base_blocks[k]):
                    err = "unrelated block %s in %s changed: %r -> %r" % (k[3], k[1], base_blocks[k][:4], got[k][:4])
                    break
            if hit == 0 and not err:
                err = "block %s not found in any %s output" % (name, lang)
    shutil.rmtree(workdir, ignore_errors=True)
    return (way, lang, name, bodyname, err)


def nocomment_case(args):
    """The documented option show_splicer_comments: false only removes the '<comment> splicer begin/end <name>' lines: whatever
    the user supplied for a block is still there (same text as with the comments, minus those lines)."""
    workdir, ydict, way, lang, name, bodyname = args
    body = BODIES[bodyname]
    y1, files, argv = supply(way, lang, name, body, ydict)
    out1, r1 = gen(os.path.join(workdir, "with"), y1, files, argv)
    y2 = json.loads(json.dumps(y1))
    y2.setdefault("options", {})["show_splicer_comments"] = False
    out2, r2 = gen(os.path.join(workdir, "without"), y2, files, argv)
    err = None
    if r1.status != "ok" or r2.status != "ok":
        err = "shroud failed: %s %s / %s %s" % (r1.exc, r1.msg, r2.exc, r2.msg)
    else:
        marker = re.compile(r"^\s*(//|!|--|#)\s*splicer (begin|end) ")
        for fn in sorted(os.listdir(out1)):
            if lang_of_file(fn) is None or fn.endswith((".json", ".log", ".yaml")):
                continue
            a = [ln for ln in open(os.path.join(out1, fn)).read().split("\n") if not marker.match(ln)]
            try:
                b = open(os.path.join(out2, fn)).read().split("\n")
            except OSError:
                err = "%s is not written with show_splicer_comments: false" % fn
                break
            if a != b:
                k = [i for i, (x, z) in enumerate(zip(a + ["<end>"], b + ["<end>"])) if x != z][0]
                err = "%s differs beyond the splicer comment lines at line %d: with comments %r, without %r" % (fn, k + 1, a[k:k + 2], b[k:k + 2])
                break
    shutil.rmtree(workdir, ignore_errors=True)
    return ("no-comments " + way, lang, name, bodyname, err)


def decl_case(args):
    """Per-declaration splicer, with and without a competing splicer_code entry."""
    workdir, ydict, idx_path, key, lang, name, bodyname, compete, base_blocks = args[:9]
    form = args[9] if len(args) > 9 else "list"
    body = BODIES[bodyname]
    y = json.loads(json.dumps(ydict))
    node = y
    for p in idx_path:
        node = node["declarations"][p]
    # the documented two spellings: a YAML list of lines, or one block string ("c: |") split at newlines
    node["splicer"] = {key: list(body) if form == "list" else "".join(ln + "\n" for ln in body)}
    if compete:
        y["splicer_code"] = {lang: nested(name, ["competing_code();"])}
    out, r = gen(workdir, y, {}, [])
    err = None
    if r.status != "ok":
        err = "shroud failed: %s %s" % (r.exc, r.msg)
    else:
        got = tree_blocks(out)
        hit = 0
        for k in sorted(got):
            if k[0] == lang and k[3] == name:
                hit += 1
                if norm(got[k]) != norm(body):
                    err = "block %s in %s holds %r, declaration splicer is %r" % (name, k[1], got[k], body)
            elif k in base_blocks and k[0] == lang and squash(got[k]) != squash(base_blocks[k]):
                err = "unrelated block %s in %s changed" % (k[3], k[1])
        if hit == 0 and not err:
            err = "block %s not found" % name
    shutil.rmtree(workdir, ignore_errors=True)
    return (("decl+splicer_code" if compete else "decl" if form == "list" else "decl-block-string"), lang, name, bodyname, err)


# scopes for which Shroud writes no C file of its own accord (a class without wrapped methods, a namespace that holds only classes,
# a namespace in a namespace): the file-level blocks of such a scope are named in input.rst like those of any other scope
DORMANT = """\
library: registry
cxx_header: registry.hpp
options:
  wrap_python: true
  wrap_lua: true
declarations:
- decl: class Handle
- decl: class Counter
  declarations:
  - decl: int next()
- decl: void release(Handle *h)
- decl: namespace outer
  declarations:
  - decl: class Item
    declarations:
    - decl: int size()
  - decl: namespace deep
    declarations:
    - decl: class Leaf
"""
DORMANT_SCOPES = ["class.Handle", "namespace.outer", "namespace.outer::deep", "namespace.outer::deep.class.Leaf", "class.Counter"]
FILE_BLOCKS = ["C_declarations", "CXX_declarations", "C_definitions", "CXX_definitions"]


def dormant_case(args):
    """User code for a file-level block of a scope whose file is otherwise not written: it is carried (the file appears), once,
    and every block of the unchanged description keeps its contents."""
    workdir, ydict, way, name, base_blocks = args
    body = ["static int user_marker = 7;"]
    y, files, argv = supply(way, "c", name, body, ydict)
    out, r = gen(workdir, y, files, argv)
    err = None
    if r.status != "ok":
        err = "shroud failed: %s %s" % (r.exc, r.msg)
    else:
        got = tree_blocks(out)
        hits = [k for k in got if k[0] == "c" and k[3] == name]
        if not hits:
            err = "user code for %s is in no generated file (the scope has nothing else to write)" % name
        elif len(hits) > 1:
            err = "block %s emitted %d times: %s" % (name, len(hits), sorted(k[1] for k in hits))
        elif norm(got[hits[0]]) != norm(body):
            err = "block %s in %s holds %r, user supplied %r" % (name, hits[0][1], got[hits[0]], body)
        else:
            for k in sorted(base_blocks):
                if k not in got:
                    err = "block %s of %s disappears when %s is supplied" % (k[3], k[1], name)
                    break
                if k[3] != name and squash(got[k]) != squash(base_blocks[k]):
                    err = "unrelated block %s in %s changed: %r -> %r" % (k[3], k[1], base_blocks[k][:4], got[k][:4])
                    break
    shutil.rmtree(workdir, ignore_errors=True)
    return ("dormant " + way, "c", name, "one", err)


def skipped_class_case(args):
    """A class that one language does not wrap contributes nothing to that language: the splicer blocks of that language (names
    and contents) are those of the same library without the class, wherever the class stands among the declarations."""
    workdir, lang, position, where = args
    opt = {"c": {"wrap_c": False, "wrap_fortran": False}, "f": {"wrap_fortran": False}, "py": {"wrap_python": False}, "lua": {"wrap_lua": False}}[lang]
    y0 = yaml.safe_load(libs.SMALL_CXX)
    y0["declarations"].insert(7, {"decl": "class Circle", "declarations": [{"decl": "Circle()"}, {"decl": "double area()"}]})
    y1 = json.loads(json.dumps(y0))
    skipped = {"decl": "class Internal", "declarations": [{"decl": "Internal()"}, {"decl": "int secret(int a)"}], "options": opt}
    target = y1["declarations"] if where == "library" else [d for d in y1["declarations"] if d["decl"] == "namespace inner"][0]["declarations"]
    target.insert({"first": 0, "middle": len(target) // 2, "last": len(target)}[position], skipped)
    out0, r0 = gen(os.path.join(workdir, "a"), y0, {}, [])
    out1, r1 = gen(os.path.join(workdir, "b"), y1, {}, [])
    err = None
    if r0.status != "ok" or r1.status != "ok":
        err = "shroud failed: %s %s / %s %s" % (r0.exc, r0.msg, r1.exc, r1.msg)
    else:
        b0 = {(k[0], k[3]): v for k, v in tree_blocks(out0).items() if k[0] == lang}
        b1 = {(k[0], k[3]): v for k, v in tree_blocks(out1).items() if k[0] == lang and ".Internal." not in "." + k[3] + "."}
        if set(b0) != set(b1):
            err = "block names of the %s wrapper change when a class it does not wrap is declared (%s of the %s): only without it %s, only with it %s" % (
                lang, position, where, sorted(k[1] for k in set(b0) - set(b1))[:4], sorted(k[1] for k in set(b1) - set(b0))[:4])
    shutil.rmtree(workdir, ignore_errors=True)
    return ("skipped class " + position + " " + where, lang, "class.Internal", "one", err)


def two_ways_case(args):
    """file + splicer_code naming different blocks of one language: both must survive."""
    workdir, ydict, lang, name1, name2, base_blocks = args
    y = json.loads(json.dumps(ydict))
    fn = "user_splicer" + EXT[lang]
    files = {fn: "%s splicer begin %s\nfrom_file();\n%s splicer end %s\n" % (COMMENT[lang], name1, COMMENT[lang], name1)}
    y["splicer"] = {lang: [fn]}
    y["splicer_code"] = {lang: nested(name2, ["from_yaml();"])}
    out, r = gen(workdir, y, files, [])
    err = None
    if r.status != "ok":
        err = "shroud failed: %s %s" % (r.exc, r.msg)
    else:
        got = tree_blocks(out)
        for k in sorted(got):
            if k[0] != lang:
                continue
            if k[3] == name1 and norm(got[k]) != ["from_file();"]:
                err = "block %s (from a splicer file) holds %r when splicer_code names another block %s" % (name1, got[k][:3], name2)
            if k[3] == name2 and norm(got[k]) != ["from_yaml();"]:
                err = "block %s (from splicer_code) holds %r" % (name2, got[k][:3])
    shutil.rmtree(workdir, ignore_errors=True)
    return ("file+splicer_code", lang, name1 + "|" + name2, "one", err)


def several_files_case(args):
    """Several splicer files for one language (input.rst: "a list of files"): the blocks of every file arrive, whichever
    way the list is given and in either order; a block named in two files takes the body of the later file."""
    workdir, ydict, lang, name1, name2, base_blocks, way, order = args
    y = json.loads(json.dumps(ydict))
    c = COMMENT[lang]
    fa, fb, fc = "user_a" + EXT[lang], "user_b" + EXT[lang], "user_c" + EXT[lang]
    files = {fa: "%s splicer begin %s\nfrom_file_a();\n%s splicer end %s\n" % (c, name1, c, name1),
             fb: "%s splicer begin %s\nfrom_file_b();\n%s splicer end %s\n" % (c, name2, c, name2),
             fc: "nothing to read here\n"}
    lst = [fa, fb] if order == 0 else [fb, fa] if order == 1 else [fa, fb, fc]
    argv = []
    if way == "yaml":
        y["splicer"] = {lang: lst}
    else:
        argv = lst
    out, r = gen(workdir, y, files, argv)
    err = None
    if r.status != "ok":
        err = "shroud failed: %s %s" % (r.exc, r.msg)
    else:
        got = tree_blocks(out)
        hits = {name1: 0, name2: 0}
        for k in sorted(got):
            if k[0] != lang:
                continue
            for nm, body in ((name1, ["from_file_a();"]), (name2, ["from_file_b();"])):
                if k[3] == nm:
                    hits[nm] += 1
                    if norm(got[k]) != body:
                        err = "splicer files %s (%s): block %s holds %r, the user's file supplies %r" % (lst, way, nm, got[k][:3], body)
            if k[3] not in hits and k in base_blocks and squash(got[k]) != squash(base_blocks[k]):
                err = "unrelated block %s in %s changed" % (k[3], k[1])
        for nm, n in hits.items():
            if n == 0 and not err:
                err = "block %s not found" % nm
    shutil.rmtree(workdir, ignore_errors=True)
    return ("several-files-" + way, lang, name1 + "|" + name2, "order%d" % order, err)


def same_block_case(args):
    """file + splicer_code naming the SAME block: the description (splicer_code) is merged over the files, complete."""
    workdir, ydict, lang, name, base_blocks = args
    y = json.loads(json.dumps(ydict))
    fn = "user_splicer" + EXT[lang]
    files = {fn: "%s splicer begin %s\nfrom_file();\nfile_line_two();\n%s splicer end %s\n" % (COMMENT[lang], name, COMMENT[lang], name)}
    y["splicer"] = {lang: [fn]}
    y["splicer_code"] = {lang: nested(name, ["from_yaml();"])}
    out, r = gen(workdir, y, files, [])
    err = None
    if r.status != "ok":
        err = "shroud failed: %s %s" % (r.exc, r.msg)
    else:
        got = tree_blocks(out)
        hit = 0
        for k in sorted(got):
            if k[0] == lang and k[3] == name:
                hit += 1
                if norm(got[k]) != ["from_yaml();"]:
                    err = "block %s is named by a splicer file and by splicer_code: it holds %r, the splicer_code body is ['from_yaml();']" % (name, got[k][:3])
            elif k in base_blocks and k[0] == lang and squash(got[k]) != squash(base_blocks[k]):
                err = "unrelated block %s in %s changed" % (k[3], k[1])
        if hit == 0 and not err:
            err = "block %s not found" % name
    shutil.rmtree(workdir, ignore_errors=True)
    return ("file+splicer_code same block", lang, name, "one", err)


# ------------------------------------------------------------------ (3) round trip
def roundtrip_case(args):
    """Generate; then for every generated file F: regenerate with F given back as a splicer
    file on the command line; every block of every file must be reproduced."""
    workdir, argv_base, _ = args
    out1 = os.path.join(workdir, "o1")
    os.makedirs(out1)
    r1 = isolate.shroud_cli(["--outdir", out1, "--logdir", out1] + argv_base, cwd=workdir)
    if r1.status != "ok":
        shutil.rmtree(workdir, ignore_errors=True)
        return [("skip", None, "first generation failed: %s" % r1.msg, 0)]
    b1 = tree_blocks(out1)
    sp = os.path.join(workdir, "sp")
    os.makedirs(sp)
    results = []
    for fn in sorted(os.listdir(out1)):
        lang = lang_of_file(fn)
        if lang is None or fn.endswith((".json", ".log", ".yaml")) or fn == "setup.py":
            continue
        if not any(k[1] == fn for k in b1):
            continue
        # the reader picks the language from the suffix: present python/lua files under it
        dst = os.path.join(sp, fn + {"py": ".py", "lua": ".lua"}.get(lang, ""))
        shutil.copy(os.path.join(out1, fn), dst)
        out2 = os.path.join(workdir, "o2")
        shutil.rmtree(out2, ignore_errors=True)
        os.makedirs(out2)
        r2 = isolate.shroud_cli(["--outdir", out2, "--logdir", out2] + argv_base + [dst], cwd=workdir)
        if r2.status == "diagnostic" and "Tag already exists" in (r2.msg or ""):
            # the description already supplies this block through its own splicer files:
            # shroud refuses the second definition with a diagnostic, nothing is lost silently
            results.append(("skip", fn, None, 0))
            continue
        if r2.status != "ok":
            results.append(("bad", "%s failed" % fn,
                            "regeneration with %s as splicer file failed: %s: %s" % (fn, r2.exc, r2.msg), 0))
            continue
        b2 = tree_blocks(out2)
        if set(b1) != set(b2):
            results.append(("bad", "%s blockset" % fn, "set of blocks changed: %s" % sorted(set(b1) ^ set(b2))[:4], 0))
            continue
        bad = 0
        occurrences = {}
        for k in b1:
            occurrences[(k[0], k[3])] = occurrences.get((k[0], k[3]), 0) + 1
        for k in sorted(b1):
            if norm(b1[k]) != norm(b2[k]):
                bad += 1
                if occurrences[(k[0], k[3])] > 1:
                    # shroud itself emitted two blocks under one name: identify the finding by that name
                    what = "duplicate-block-name lang=%s name=%s" % (k[0], k[3])
                else:
                    what = "%s block=%s in=%s" % (fn, k[3], k[1])
                results.append(("bad", what,
                                "feeding %s back: block %s of %s not reproduced: %r -> %r"
                                % (fn, k[3], k[1], b1[k][:5], b2[k][:5]), 0))
        results.append(("ok" if not bad else "counted", fn, None, len(b1)))
    shutil.rmtree(workdir, ignore_errors=True)
    return results


# ------------------------------------------------------------------ driver
FUNC_DECLS = [
    # (path of indices into declarations, splicer key, language, block name)
    ((0,), "c", "c", "function.add_one"),
    ((0,), "f", "f", "function.add_one"),
    ((0,), "py", "py", "function.add_one"),
    ((1,), "c_buf", "c", "function.get_name_bufferify"),
    ((7, 1, 2), "c", "c", "namespace.inner.class.Thing.method.get_id"),
    ((7, 1, 2), "f", "f", "namespace.inner.class.Thing.method.get_id"),
    ((7, 1, 2), "py", "py", "namespace.inner.class.Thing.method.get_id"),
    # functions whose result statements bring their own call / body: constructor, destructor, string result, static method
    ((7, 1, 0), "f", "f", "namespace.inner.class.Thing.method.ctor"),
    ((7, 1, 0), "c", "c", "namespace.inner.class.Thing.method.ctor"),
    ((7, 1, 1), "f", "f", "namespace.inner.class.Thing.method.dtor"),
    ((7, 1, 4), "f", "f", "namespace.inner.class.Thing.method.count"),
    ((1,), "f", "f", "function.get_name"),
    ((2,), "f", "f", "function.scale"),
]


def run(ctx):
    quick = ctx.tier == "quick"
    W = ctx.workers
    # ---- (1)
    maxlines = 4 if quick else 5
    tot_states = 0
    for n in range(0, maxlines + 1):
        nsh = 1 if n < 3 else W * 2
        res = isolate.pmap(run_reader, [(n, s, nsh) for s in range(nsh)], W)
        cnt = sum(r[0] for r in res)
        st = sum(r[2] for r in res)
        tot_states += st
        ctx.count(states=st, transitions=cnt, validated=cnt)
        ctx.nontrivial_n(cnt)
        for r in res:
            for k, v in r[3].items():
                ctx.outcome("reader " + k, v)
            for lines, err in r[1]:
                ctx.violation("reader %r" % (lines,), err, {"kind": "reader", "lines": lines})
        ctx.part("reader", files=cnt, max_lines=n, alphabet=len(LINES))
    ctx.sample({"splicer_file_lines": [LINES[0], LINES[7], LINES[1]]})

    # ---- (2)
    ydict = yaml.safe_load(libs.SMALL_CXX)
    basedir = ctx.subdir("emit")
    out, r = gen(os.path.join(basedir, "base"), ydict, {}, [])
    if r.status != "ok":
        raise RuntimeError("baseline generation failed: %s" % r.msg)
    base_blocks = tree_blocks(out)
    names = sorted(set((k[0], k[3]) for k in base_blocks))
    ctx.part("emitter", splicer_names=len(names), block_occurrences=len(base_blocks))
    bodies = QUICK_BODIES if quick else sorted(BODIES)
    ways = ["cmdline-file", "yaml-file", "splicer_code"]
    jobs = []
    i = 0
    if quick:
        # every name with every way on the first body; every body with every way on a
        # representative subset of names (each kind of block in each language)
        kinds = {}
        for lang, name in names:
            kind = (lang, re.sub(r"\.[A-Za-z_0-9]+$", "", name) if ".method." in name or "function." in name else name)
            kinds.setdefault(kind, (lang, name))
        rep = sorted(kinds.values())
        plan = [(lang, name, "one", w) for lang, name in names for w in ways]
        plan += [(lang, name, b, w) for lang, name in rep[:: max(1, len(rep) // 14)] for b in bodies[1:] for w in ways]
    else:
        plan = [(lang, name, b, w) for lang, name in names for b in bodies for w in ways]
    SUFFIXES = {"c": [".h", ".cpp", ".hpp", ".cxx", ".hxx", ".cc", ".C"], "f": [".f90"]}
    for lang_, sufs in SUFFIXES.items():
        ln_ = [n for l, n in names if l == lang_]
        for suf in sufs:
            for name_ in (ln_[:1] + ln_[-1:]):
                plan.append((lang_, name_, "one", "cmdline-file" + suf))
    for lang, name, b, w in plan:
        i += 1
        jobs.append((os.path.join(basedir, "w%d" % i), ydict, w, lang, name, b, base_blocks))
    # a second description with nested namespaces (a namespace holding a namespace and a class, a leaf namespace)
    ydict2 = yaml.safe_load(libs.NESTED_CXX)
    out2, r2 = gen(os.path.join(basedir, "base2"), ydict2, {}, [])
    if r2.status != "ok":
        raise RuntimeError("baseline generation of the nested description failed: %s" % r2.msg)
    base_blocks2 = tree_blocks(out2)
    names2 = sorted(set((k[0], k[3]) for k in base_blocks2))
    for lang, name in names2:
        for w in (ways if not quick else ways[:2]):
            i += 1
            jobs.append((os.path.join(basedir, "w%d" % i), ydict2, w, lang, name, "one" if (i % 3) else "braces", base_blocks2))
    ctx.part("emitter", nested_description_names=len(names2))
    # the names themselves: one block name lives in one place, and a Fortran module file only holds
    # blocks of its own scope (input.rst lists the names per module)
    for bb in (base_blocks, base_blocks2):
        where = {}
        for (lang, fn, idx, name) in bb:
            where.setdefault((lang, name), []).append(fn)
        for (lang, name), fns in sorted(where.items()):
            if len(fns) > 1:
                ctx.violation("roundtrip duplicate-block-name lang=%s name=%s" % (lang, name),
                              "splicer name %s is emitted %d times (%s): user code for it cannot be told apart" % (name, len(fns), sorted(set(fns))),
                              {"kind": "names", "name": name})
        scopes = {}
        for (lang, fn, idx, name) in bb:
            if lang == "f":
                m = re.match(r"namespace\.([^.]+)\.", name)
                scopes.setdefault(fn, set()).add(m.group(1) if m else "")
        for fn, sc in sorted(scopes.items()):
            if len(sc) > 1:
                ctx.violation("emitter scope-mix %s" % fn, "Fortran file %s holds splicer blocks of different scopes: %s" % (fn, sorted(sc)),
                              {"kind": "names", "file": fn})
    ctx.rng.shuffle(jobs)
    res = isolate.pmap(emit_case, jobs, W)
    djobs = []
    for path, key, lang, name in FUNC_DECLS:
        for b in bodies:
            for compete in (False, True):
                i += 1
                djobs.append((os.path.join(basedir, "w%d" % i), ydict, path, key, lang, name, b, compete, base_blocks))
            if BODIES[b]:
                i += 1
                djobs.append((os.path.join(basedir, "w%d" % i), ydict, path, key, lang, name, b, False, base_blocks, "text"))
    # a C-language library: functions that would be bound directly get a wrapper because the user supplied its body
    ydict_c = yaml.safe_load(libs.SMALL_C)
    outc, rc_ = gen(os.path.join(basedir, "base_c"), ydict_c, {}, [])
    if rc_.status != "ok":
        raise RuntimeError("baseline generation failed: %s" % rc_.msg)
    base_blocks_c = tree_blocks(outc)
    for path, key, lang, name in [((0,), "c", "c", "function.c_add"), ((0,), "f", "f", "function.c_add"), ((0,), "py", "py", "function.c_add"),
                                  ((2,), "c", "c", "function.c_name"), ((3,), "c", "c", "function.c_sum")]:
        for b in (bodies if not quick else bodies[:3]):
            i += 1
            djobs.append((os.path.join(basedir, "w%d" % i), ydict_c, path, key, lang, name, b, False, base_blocks_c))
    res += isolate.pmap(decl_case, djobs, W)
    njobs = []
    for lang, name in (names if not quick else names[:: max(1, len(names) // 24)]):
        for w in ways:
            i += 1
            njobs.append((os.path.join(basedir, "w%d" % i), ydict, w, lang, name, "one"))
    res += isolate.pmap(nocomment_case, njobs, W)
    tjobs = []
    for lang in ("c", "f", "py", "lua"):
        ln = [n for l, n in names if l == lang]
        pairs = [(ln[0], ln[-1]), (ln[len(ln) // 2], ln[1])] if quick else [(a, b) for a in ln[::5] for b in ln[1::7] if a != b]
        for a, b in pairs:
            i += 1
            tjobs.append((os.path.join(basedir, "w%d" % i), ydict, lang, a, b, base_blocks))
    res += isolate.pmap(two_ways_case, tjobs, W)
    mjobs = []
    for t in tjobs:
        for way in ("yaml", "cmdline"):
            for order in (0, 1, 2):
                i += 1
                mjobs.append((os.path.join(basedir, "w%d" % i),) + t[1:] + (way, order))
    res += isolate.pmap(several_files_case, mjobs, W)
    ydorm = yaml.safe_load(DORMANT)
    outd, rd = gen(os.path.join(basedir, "base_dormant"), ydorm, {}, [])
    if rd.status != "ok":
        raise RuntimeError("baseline generation failed: %s" % rd.msg)
    base_dorm = tree_blocks(outd)
    qjobs = []
    for sc in DORMANT_SCOPES:
        for blk in FILE_BLOCKS:
            for way in ways:
                i += 1
                qjobs.append((os.path.join(basedir, "w%d" % i), ydorm, way, sc + "." + blk, base_dorm))
    res += isolate.pmap(dormant_case, qjobs, W)
    kjobs = []
    for lang in ("c", "f", "py", "lua"):
        for position in ("first", "middle", "last"):
            for where in ("library", "namespace"):
                i += 1
                kjobs.append((os.path.join(basedir, "w%d" % i), lang, position, where))
    res += isolate.pmap(skipped_class_case, kjobs, W)
    sjobs = []
    for lang in ("c", "f", "py", "lua"):
        ln = [n for l, n in names if l == lang]
        for a in (ln[:: max(1, len(ln) // 4)] if quick else ln):
            i += 1
            sjobs.append((os.path.join(basedir, "w%d" % i), ydict, lang, a, base_blocks))
    res += isolate.pmap(same_block_case, sjobs, W)
    ctx.part("emitter", runs=len(res), bodies=bodies, ways=ways + ["decl", "decl+splicer_code", "file+splicer_code", "file+splicer_code same block", "file-level blocks of scopes without a file of their own", "several files (yaml list / command line, both orders, with an empty third)"])
    ctx.count(states=len(res), transitions=len(res), validated=len(res))
    ctx.nontrivial_n(len(res))
    for way, lang, name, bodyname, err in res:
        ctx.outcome("emitter %s %s" % (way, "ok" if not err else "bad"))
        if err:
            key = "emitter body=%s" % bodyname if bodyname in ("trailing-plus", "tab") and err.startswith("block ") else "emitter way=%s lang=%s name=%s body=%s" % (way, lang, name, bodyname)
            if way == "file+splicer_code":
                key = "emitter file+splicer_code lang=%s" % lang
            if way.startswith("several-files"):
                key = "emitter %s lang=%s" % (way, lang)
            if way == "file+splicer_code same block":
                key = "emitter file+splicer_code same block lang=%s" % lang
            ctx.violation(key, err, {"kind": "emit", "way": way, "lang": lang, "name": name, "body": bodyname})
    ctx.sample({"way": "splicer_code", "lang": "f", "name": names[0][1], "body": BODIES["braces"]})

    # ---- (3)
    rbase = ctx.subdir("rt")
    rjobs = []
    for j, (nm, text) in enumerate((("small", libs.SMALL_CXX), ("csmall", libs.SMALL_C), ("other", libs.OTHER_CXX))):
        wd = os.path.join(rbase, nm)
        os.makedirs(wd)
        with open(os.path.join(wd, "lib.yaml"), "w") as fp:
            fp.write(text)
        rjobs.append((wd, ["lib.yaml"], None))
    cfgs = corpus.configs(ctx.repo)
    if quick:
        cfgs = [c for c in cfgs if c[0] in ("tutorial", "classes", "strings", "struct-c", "vectors", "templates", "namespace", "ownership", "example")]
    for cfg in cfgs:
        wd = os.path.join(rbase, "c-" + cfg[0])
        os.makedirs(wd)
        argv = corpus.argv_for(ctx.repo, cfg, "X")
        # drop the --logdir/--outdir pair supplied by argv_for (roundtrip_case adds its own)
        argv = argv[:2] + argv[6:]
        rjobs.append((wd, argv, None))
    rres = isolate.pmap(roundtrip_case, rjobs, W)
    nb = 0
    nruns = 0
    for (wd, argv, _), results in zip(rjobs, rres):
        lib = os.path.basename(wd)
        for st, what, err, nblocks in results:
            nb += nblocks
            if st in ("ok", "counted", "skip"):
                nruns += 1
                ctx.outcome("roundtrip " + st)
            if st == "bad":
                ctx.outcome("roundtrip bad")
                key = "roundtrip " + what if what.startswith("duplicate-block-name") else "roundtrip %s %s" % (lib, what)
                ctx.violation(key, err, {"kind": "roundtrip", "argv": argv, "what": what})
    ctx.count(states=nruns, transitions=nb, validated=nb)
    ctx.part("roundtrip", libraries=len(rjobs), regenerations=nruns, blocks_compared=nb)
    ctx.cov["rule"] = (
        "reader: every file of <= %d lines over an %d-line alphabet on the real get_splicers vs a reference reader "
        "(states = distinct reference-reader states); emitter: splicer name x body x supply way, each a real shroud run "
        "whose every block is compared; round trip: generated files fed back as splicer files" % (maxlines, len(LINES))
    )
    ctx.cov["bounds"] = {"reader_max_lines": maxlines, "bodies": bodies}
    ctx.assumptions += [
        "begin/end tags without a name and names that are both a block and a level are outside the alphabet",
        "a nested block name given twice in one file: error or replacement both accepted (documentation silent)",
        "block comparison is up to leading indentation and trailing blanks, as the property states",
    ]


def replay(ctx, path):
    with open(path) as fp:
        p = json.load(fp)["payload"]
    if p["kind"] == "reader":
        from shroud import splicer

        text = "".join(l + "\n" for l in p["lines"])
        splicer.open = lambda fname, mode="r": io.StringIO(text)
        got = {}
        try:
            splicer.get_splicers("mem.c", got)
            print("shroud read:", got)
        except Exception as e:  # noqa
            print("shroud raised:", type(e).__name__, e)
        print("reference:", ref_reader(p["lines"])[0])
    else:
        print("re-run the check; payload:", p)
    ctx.count(states=1, transitions=1)
