"""C13 - line wrapping never alters code and respects Fortran's line limit.

Explicit exhaustive exploration of util.WrapperMixin.write_continue / write_lines
(the real functions, on a stub object) over every logical line under a length
bound, every small line length, indentation depth and continuation marker; the
oracle is a set of invariants on the physical lines, not a re-implementation.
Second half: every line of every Fortran file of the upstream corpus.
"""
from __future__ import annotations

import io
import itertools
import json
import os
import re

from .. import corpus, isolate

SP = "    "
LETTERS = "abcdefghijklmnop"


def make_writer():
    from shroud import util

    class W(util.WrapperMixin):
        def __init__(self):
            self.indent = 0
            self.linelen = 80
            self.cont = ""

    return W()


# ---------------------------------------------------------------- write_continue
def logical_lines(maxlen, alphabet="x \t\f"):
    """Every string over alphabet with 1..maxlen characters; the i-th 'x' becomes a distinct letter."""
    for n in range(1, maxlen + 1):
        for tup in itertools.product(alphabet, repeat=n):
            k = 0
            out = []
            for ch in tup:
                if ch == "x":
                    out.append(LETTERS[k])
                    k += 1
                else:
                    out.append(ch)
            yield "".join(out)


def analyse(line):
    """-> (T, hints, cr): text without hints, set of T-offsets at which a hint sits, leading CR."""
    cr = line.startswith("\r")
    if cr:
        line = line[1:]
    t = []
    hints = set()
    forced = set()
    for ch in line:
        if ch == "\t":
            hints.add(len(t))
        elif ch == "\f":
            hints.add(len(t))
            forced.add(len(t))
        else:
            t.append(ch)
    return "".join(t), hints, forced, cr


def match_lines(T, contents, hints, prefixes, linelen):
    """Is there a way to lay the physical contents over T such that only blanks at break
    points are dropped, every break sits on a designated break point, and an over-long line
    holds no usable break point?  Returns (ok, reason-of-the-deepest-failure)."""
    best = [(-1, "text altered: logical %r -> physical %r" % (T, contents))]

    def fail(i, why):
        if i > best[0][0]:
            best[0] = (i, why)

    def rec(i, p):
        if i == len(contents):
            if T[p:].strip(" ") == "":
                return True
            fail(i, "text lost at the end: logical %r -> physical %r" % (T, contents))
            return False
        c = contents[i]
        q = p
        while True:
            if T.startswith(c, q):
                e = q + len(c)
                ok = True
                if i > 0 and not any(h in hints for h in range(p, q + 1)):
                    ok = False
                    fail(i, "break outside a designated break point before %r: logical %r -> %r" % (c, T, contents))
                if ok and len(prefixes[i]) + len(c) > linelen and any(q < h < e for h in hints):
                    ok = False
                    fail(i, "physical line %r exceeds %d although it contains a break point: logical %r"
                         % (prefixes[i] + c, linelen, T))
                if ok and rec(i + 1, e):
                    return True
            if i == 0:
                break  # nothing may be dropped before the first line
            if q < len(T) and T[q] == " ":
                q += 1
            else:
                break
        return False

    if rec(0, 0):
        return True, None
    return False, best[0][1]


def check_continue(w, line, linelen, indent, cont, SP=SP):
    """Run the real write_continue; return None or a description of the broken invariant."""
    w.indent = indent
    w.linelen = linelen
    w.cont = cont
    fp = io.StringIO()
    try:
        w.write_continue(fp, line, SP)
    except Exception as e:  # noqa
        return "exception %s: %s" % (type(e).__name__, e)
    if w.indent != indent:
        return "write_continue changed the indentation level"
    text = fp.getvalue()
    if not text.endswith("\n"):
        return "output does not end with a newline"
    phys = text[:-1].split("\n")
    T, hints, forced, cr = analyse(line)
    contents = []
    for i, pl in enumerate(phys):
        last = i == len(phys) - 1
        if not last:
            if cont and not pl.endswith(cont):
                return "broken line %d lacks the continuation marker: %r" % (i, phys)
            if cont:
                pl = pl[: -len(cont)]
        pre = SP * (indent if i == 0 else indent + (2 if cr else 1))
        if not pl.startswith(pre):
            return "line %d does not carry its indentation: %r" % (i, phys)
        contents.append(pl[len(pre):])
    if "\t" in text or "\f" in text or "\r" in text:
        return "a layout hint character appears in the output: %r" % text
    prefixes = [SP * (indent if i == 0 else indent + (2 if cr else 1)) for i in range(len(contents))]
    ok, why = match_lines(T, contents, hints, prefixes, linelen)
    if not ok:
        return why + " (input %r)" % line
    return None


def explore_continue(args):
    maxlen, linelens, indents, conts, with_cr, shard, nshards, spaces = args
    w = make_writer()
    n = 0
    nbreak = 0
    bad = []
    lines_seen = 0
    for idx, base in enumerate(logical_lines(maxlen)):
        if idx % nshards != shard:
            continue
        for line in ((base, "\r" + base) if with_cr else (base,)):
            lines_seen += 1
            for ll in linelens:
                for ind in indents:
                    for cont in conts:
                        for sp in spaces:
                            n += 1
                            err = check_continue(w, line, ll, ind, cont, sp)
                            if err:
                                if len(bad) < 20:
                                    bad.append((line, ll, ind, cont, sp, err))
    return n, lines_seen, bad


# ---------------------------------------------------------------- write_lines
DIRECTIVE_ALPHABET = "x+-@^# "


def model_line(line, indent):
    """Reference model of the documented directives -> (column1, indent_at_emit, text, indent_after)
    or None when the line is outside the domain (no text left to emit)."""
    if line == "":
        return (True, indent, "", indent)
    c = line[0]
    if c == "#":
        return (True, indent, line, indent)
    if c == "@":
        return (False, indent, line[1:], indent) if line[1:] else None
    if c == "^":
        return (True, indent, line[1:], indent)
    if c == "+":
        if line.endswith("-") and len(line) >= 2:
            t = line[1:-1]
            return (False, indent + 1, t, indent) if t else None
        t = line[1:]
        return (False, indent + 1, t, indent + 1) if t else None
    k = 0
    while k < len(line) and line[k] == "-":
        k += 1
    t = line[k:]
    if not t:
        return None
    if t.endswith("+"):
        t2 = t[:-1]
        return (False, indent - k, t2, indent - k + 1) if t2 else None
    return (False, indent - k, t, indent - k)


def check_lines(w, seq, indent):
    """seq: list of directive lines. Compare the real write_lines with the model."""
    exp = []
    ind = indent
    for ln in seq:
        m = model_line(ln, ind)
        if m is None or m[1] < 0 or m[3] < 0:
            return "skip"
        col1, at, text, ind = m
        if text == "" and ln == "":
            exp.append("")
        elif col1:
            exp.append(text)
        else:
            if text.strip(" ") == "" and not col1:
                # all-blank text: write_continue emits indentation + blanks; fine
                pass
            exp.append(SP * at + text)
    w.indent = indent
    w.linelen = 1000
    w.cont = ""
    fp = io.StringIO()
    try:
        w.write_lines(fp, list(seq), SP)
    except Exception as e:  # noqa
        return "exception %s: %s on %r" % (type(e).__name__, e, seq)
    got = fp.getvalue()
    want = "".join(e + "\n" for e in exp)
    if got != want:
        return "write_lines(%r) at indent %d wrote %r, directives say %r" % (seq, indent, got, want)
    if w.indent != ind:
        return "write_lines(%r) left indent %d, directives say %d" % (seq, w.indent, ind)
    return None


def explore_lines(args):
    maxlen, seqlen, indents, shard, nshards = args
    w = make_writer()
    single = [""]
    for n in range(1, maxlen + 1):
        single.extend("".join(t) for t in itertools.product(DIRECTIVE_ALPHABET, repeat=n))
    n = 0
    skipped = 0
    bad = []
    idx = 0
    for seq in itertools.product(single, repeat=seqlen):
        idx += 1
        if idx % nshards != shard:
            continue
        for ind in indents:
            err = check_lines(w, seq, ind)
            if err == "skip":
                skipped += 1
                continue
            n += 1
            if err and len(bad) < 20:
                bad.append((list(seq), ind, err))
    return n, skipped, bad


# ---------------------------------------------------------------- as_yaml through write_lines
YAML_VALUES = ["x", "two words", "{f_var}%cxxmem", ["h1.h"], ["h1.h", "<vector>"], ["-lm", "+x"], {"k": "v"}, {"k": ["i", "j"], "m": "n"}, 3, True]


def explore_as_yaml(args):
    """util.as_yaml renders a mapping as directive lines (an explicit '@' keeps a sequence item's leading '-' literal);
    written through write_lines the text must load, as YAML, to the mapping it was made from."""
    shard, nshards = args
    import yaml as _y
    from shroud import util

    w = make_writer()
    bad = []
    n = 0
    idx = 0
    for nkeys in (1, 2, 3):
        for vals in itertools.product(range(len(YAML_VALUES)), repeat=nkeys):
            idx += 1
            if idx % nshards != shard:
                continue
            obj = {"key%d" % i: YAML_VALUES[v] for i, v in enumerate(vals)}
            for indent in (0, 1):
                lines = []
                try:
                    util.as_yaml(obj, sorted(obj), lines)
                    w.indent = indent
                    w.linelen = 1000
                    w.cont = ""
                    fp = io.StringIO()
                    w.write_lines(fp, lines, "  ")
                    text = fp.getvalue()
                    got = _y.safe_load(text)
                    ok = got == obj and w.indent == indent
                    why = "loads as %r" % (got,) if got != obj else "leaves indent %d" % w.indent
                except Exception as e:  # noqa
                    ok = False
                    why = "%s: %s" % (type(e).__name__, str(e)[:120])
                    text = locals().get("text", "")
                n += 1
                if not ok and len(bad) < 10:
                    bad.append((obj, indent, "as_yaml(%r) written at indent %d gives %r, which %s" % (obj, indent, text, why)))
    return n, bad


# ---------------------------------------------------------------- listify
def explore_listify(args):
    """ast.listify turns a newline delimited string of user statements into lines: only "\n" separates lines; the break
    hints (form feed, carriage return, tab) stay inside the line they were written in, for write_continue to see."""
    maxlen = args
    from shroud import ast

    bad = []
    n = 0
    for k in range(1, maxlen + 1):
        for tup in itertools.product("x\n\f\r\t ", repeat=k):
            text = "".join(tup)
            want = text.split("\n")
            if text.endswith("\n"):
                want.pop()
            for where in ("flat", "nested"):
                entry = {"c": text, "other": text} if where == "flat" else {"f": {"pre_call": text, "keep": text}}
                try:
                    got = ast.listify(entry, ["c", "pre_call"])
                    lines = got["c"] if where == "flat" else got["f"]["pre_call"]
                    untouched = got["other"] if where == "flat" else got["f"]["keep"]
                except Exception as e:  # noqa
                    lines, untouched = "%s: %s" % (type(e).__name__, e), text
                n += 1
                if (lines != want or untouched != text) and len(bad) < 10:
                    bad.append((text, "listify(%r) gives %r, the lines between newlines are %r" % (text, lines, want)))
    return n, bad


# ---------------------------------------------------------------- generated files
FORTRAN_STARTERS = re.compile(
    r"^(use|implicit|type|end|integer|real|character|logical|complex|double|interface|abstract|subroutine|function|module|program|contains|call|if|else|elseif|"
    r"do|select|case|endif|enddo|endfunction|endsubroutine|endmodule|endtype|endinterface|endselect|elsewhere|endwhere|allocate|deallocate|import|private|public|procedure|generic|final|return|nullify|enum|enumerator|class|associate|stop|"
    r"pure|elemental|recursive|block|where|print|write|read|continue|exit|cycle|data|save|parameter|external|intrinsic|include|sequence|"
    r"bind\s*\(\s*c\s*\)\s*::)\b", re.I)
ASSIGNMENT = re.compile(r"^[A-Za-z_]\w*(\s*%\s*[A-Za-z_]\w*|\s*\([^=]*\))*\s*(=>|=)(?!=)")


def strip_fortran_comment(ln):
    q = None
    for i, ch in enumerate(ln):
        if q:
            if ch == q:
                q = None
        elif ch in "'\"":
            q = ch
        elif ch == "!":
            return ln[:i]
    return ln


def orphan_lines(text):
    """Physical lines of free-form Fortran that begin in the middle of a statement although the line before them does not
    end in the continuation marker: the logical line they belong to cannot be recovered."""
    out = []
    continued = False
    user = 0
    for no, raw in enumerate(text.split("\n"), 1):
        # what stands between splicer markers is the user's text, whatever it is
        if re.match(r"^\s*!\s*splicer begin\b", raw):
            user += 1
        elif re.match(r"^\s*!\s*splicer end\b", raw):
            user = max(0, user - 1)
            continued = False
        if user:
            continue
        ln = strip_fortran_comment(raw).rstrip()
        t = ln.strip()
        if not t or t.startswith("#"):
            continue
        if continued:
            continued = t.endswith("&")
            continue
        continued = t.endswith("&")
        body = t.lstrip("&").strip()
        m = re.match(r"^(\w+)\s*:(?!:)\s*(.*)$", body)  # construct label
        if m:
            body = m.group(2) or body
        body = re.sub(r"^\d+\s+", "", body)  # statement label
        if FORTRAN_STARTERS.match(body) or ASSIGNMENT.match(body):
            continue
        out.append((no, raw))
    return out


def fortran_line_limit(ctx, only=None):
    base = ctx.subdir("corpus")
    res = corpus.generate_all(ctx.repo, base, ctx.workers, only=only)
    nfiles = nlines = 0
    longest = 0
    for name in sorted(res):
        cfg, out, r = res[name]
        if r.status != "ok":
            ctx.part("generated_files", failed_generation=1)
            continue
        for fn in sorted(os.listdir(out)):
            # the break hints (TAB, form feed, carriage return) are directives to the writer: none may reach a written file
            pth = os.path.join(out, fn)
            if os.path.isfile(pth) and not fn.endswith((".json", ".log")):
                try:
                    text_all = open(pth, errors="replace").read()
                except OSError:
                    text_all = ""
                user = 0
                for no, raw in enumerate(text_all.split("\n"), 1):
                    if re.search(r"splicer begin\b", raw):
                        user += 1
                    elif re.search(r"splicer end\b", raw):
                        user = max(0, user - 1)
                    if user:
                        continue  # the user's own text
                    if "\t" in raw or "\f" in raw or "\r" in raw:
                        ctx.violation("hint-in-output %s:%s" % (name, fn), "%s/%s line %d contains a layout directive character (TAB / FF / CR) in the emitted text: %r" % (
                            name, fn, no, raw[:160]), {"config": cfg, "file": fn, "line": no})
                        break
            if not fn.endswith((".f", ".f90", ".F")):
                continue
            nfiles += 1
            with open(os.path.join(out, fn)) as fp:
                for no, raw in orphan_lines(fp.read())[:2]:
                    ctx.violation("fortran-orphan-line %s:%s" % (name, fn), "%s/%s line %d starts in the middle of a statement but the line before it carries no continuation marker: %r" % (
                        name, fn, no, raw), {"config": cfg, "file": fn, "line": no})
            with open(os.path.join(out, fn)) as fp:
                for no, ln in enumerate(fp, 1):
                    ln = ln.rstrip("\n")
                    nlines += 1
                    if ln.lstrip().startswith("!"):
                        continue
                    if ln.startswith("#"):
                        continue
                    longest = max(longest, len(ln))
                    if len(ln) > 132:
                        key = "fortran-line>132 %s:%s" % (name, fn)
                        ctx.violation(key, "%s/%s line %d has %d columns: %s" % (name, fn, no, len(ln), ln),
                                      {"config": cfg, "file": fn, "line": no})
    ctx.part("generated_files", configs=len(res), fortran_files=nfiles, lines=nlines, longest_noncomment_line=longest)
    ctx.count(states=nfiles, transitions=nlines, validated=nlines)
    return nfiles


LONG_LIB = """\
library: Linelen
cxx_header: linelen.hpp
options:
  wrap_python: true
  wrap_lua: false
  PY_array_arg: list
declarations:
- decl: double accumulate_weighted_sum(const double *input_value_array +rank(1), int number_of_values +implied(size(input_value_array)), double scaling_factor_one, double scaling_factor_two, const std::string &description_of_the_run)
- decl: void update_coordinates_in_place(double *coordinate_array_x +rank(1)+intent(inout), double *coordinate_array_y +rank(1)+intent(inout), int number_of_points +implied(size(coordinate_array_x)), bool periodic_boundary_flag)
- decl: const std::string &lookup_name_of_component(int component_index_value, const std::string &fallback_component_name)
- decl: class Flux
  declarations:
  - decl: Flux()
  - decl: void accumulate_flux(int cell_index_value)
    format:
      function_suffix: _from_cell_index_only
  - decl: void accumulate_flux(int cell_index_value, double weight_of_cell)
    format:
      function_suffix: _from_cell_index_and_weight
  - decl: void accumulate_flux(double position_x, double position_y)
    format:
      function_suffix: _from_position_in_plane
  - decl: void accumulate_flux(const std::string &name_of_region)
    format:
      function_suffix: _from_name_of_region
  - decl: double total_flux_through_boundary(int boundary_index = 1, double scaling_factor_for_units = 1.0, bool include_ghost_cells = false)
"""


def gen_with(args):
    workdir, text, extra = args
    from .. import gen
    r, tree = gen.gen_tree(workdir, text, extra)
    return r.status, tree


def line_length_options(ctx):
    """C_line_length and F_line_length are independent: each governs only its own languages' files."""
    from .. import libs
    wd = ctx.subdir("ll")
    descs = {"long": LONG_LIB, "small": libs.SMALL_CXX, "csmall": libs.SMALL_C}
    combos = [(72, 72), (1000, 72), (40, 72), (72, 40), (72, 100), (1000, 40), (0, 72), (72, 0), (0, 0), (1, 72), (72, 1)]
    jobs, meta = [], []
    for dn, text in descs.items():
        for cl, fl in combos:
            jobs.append((os.path.join(wd, "%s-%d-%d" % (dn, cl, fl)), text, ["--option", "C_line_length=%d" % cl, "--option", "F_line_length=%d" % fl]))
            meta.append((dn, cl, fl))
    res = isolate.pmap(gen_with, jobs, ctx.workers)
    trees = {}
    for (dn, cl, fl), (st, tree) in zip(meta, res):
        if st != "ok":
            ctx.violation("linelen generation %s C=%d F=%d" % (dn, cl, fl), "generation fails with C_line_length=%d F_line_length=%d on %s" % (cl, fl, dn), {"kind": "linelen"})
            continue
        trees[(dn, cl, fl)] = tree
        for fn, data in tree.items():
            if fn.endswith((".f", ".f90", ".F")):
                for no, ln in enumerate(data.decode().split("\n"), 1):
                    if ln.lstrip().startswith("!") or ln.startswith("#"):
                        continue
                    if len(ln) > 132:
                        ctx.violation("fortran-line>132 %s C=%d F=%d" % (dn, cl, fl), "%s with C_line_length=%d F_line_length=%d: %s line %d has %d columns: %s" % (
                            dn, cl, fl, fn, no, len(ln), ln[:160]), {"kind": "linelen", "desc": dn, "C": cl, "F": fl})
                        break
    isf = lambda fn: fn.endswith((".f", ".f90", ".F"))
    n = 0
    for dn in descs:
        for (c1, f1), (c2, f2) in itertools.combinations(combos, 2):
            a, b = trees.get((dn, c1, f1)), trees.get((dn, c2, f2))
            if a is None or b is None:
                continue
            n += 1
            if f1 == f2 and c1 != c2:
                da = {k: v for k, v in a.items() if isf(k)}
                db = {k: v for k, v in b.items() if isf(k)}
                if da != db:
                    ctx.violation("linelen fortran-depends-on-C_line_length %s" % dn, "%s: the Fortran files change when only C_line_length changes (%d -> %d, F_line_length=%d):\n%s" % (
                        dn, c1, c2, f1, "\n".join(isolate.diff_trees(da, db, 1))), {"kind": "linelen", "desc": dn})
            if c1 == c2 and f1 != f2:
                da = {k: v for k, v in a.items() if not isf(k) and not k.endswith(".yaml")}
                db = {k: v for k, v in b.items() if not isf(k) and not k.endswith(".yaml")}
                if da != db:
                    ctx.violation("linelen c-depends-on-F_line_length %s" % dn, "%s: C/C++/Python files change when only F_line_length changes (%d -> %d, C_line_length=%d):\n%s" % (
                        dn, f1, f2, c1, "\n".join(isolate.diff_trees(da, db, 1))), {"kind": "linelen", "desc": dn})
        # the options act: the long library wraps differently at 40 and at 100 columns
    for opt, k1, k2 in (("F_line_length", ("long", 72, 40), ("long", 72, 100)), ("C_line_length", ("long", 40, 72), ("long", 1000, 72)),
                        ("C_line_length", ("long", 0, 72), ("long", 72, 72)), ("F_line_length", ("long", 72, 0), ("long", 72, 72)),
                        ("C_line_length", ("csmall", 0, 72), ("csmall", 72, 72))):
        a, b = trees.get(k1), trees.get(k2)
        if a is not None and b is not None:
            sel = (lambda k: isf(k)) if opt == "F_line_length" else (lambda k: k.endswith((".cpp", ".h")))
            if {k: v for k, v in a.items() if sel(k)} == {k: v for k, v in b.items() if sel(k)}:
                ctx.violation("linelen %s-ignored" % opt, "the long-name library is wrapped identically under two values of %s: the option is not honoured" % opt, {"kind": "linelen"})
    # reference.rst: "A value of 0 will give the shortest possible lines": every optional break is taken, exactly as
    # under a length no token fits in (1)
    for dn in descs:
        for opt, k0, k1 in (("C_line_length", (dn, 0, 72), (dn, 1, 72)), ("F_line_length", (dn, 72, 0), (dn, 72, 1))):
            a, b = trees.get(k0), trees.get(k1)
            if a is not None and b is not None:
                n += 1
                if a != b:
                    ctx.violation("linelen %s-zero-not-shortest %s" % (opt, dn), "%s: %s=0 (documented: shortest possible lines) is wrapped differently from %s=1:\n%s" % (
                        dn, opt, opt, "\n".join(isolate.diff_trees(a, b, 1))), {"kind": "linelen", "desc": dn})
    # a line length given on an inner scope (a namespace, a nested namespace, a class, one function) is that scope's business:
    # the files of the scopes around it are wrapped as without it
    import yaml as _y
    based = _y.safe_load(LONG_LIB)
    inner = [{"decl": "void reset()"}, {"decl": "int generation(int a_long_argument_name_for_the_generation, double another_long_argument_name)"}]
    based["declarations"] = list(based["declarations"]) + [
        {"decl": "namespace detail", "declarations": list(inner) + [{"decl": "namespace deeper", "declarations": [{"decl": "void again()"}]}]},
        {"decl": "class Holder", "declarations": [{"decl": "Holder()"}, {"decl": "int held(int a_long_argument_name_for_the_holder) const"}]},
        {"decl": "void lonely(int a_long_argument_name_for_the_lonely_function)"}]
    njobs, nmeta = [(os.path.join(wd, "scope-base"), _y.safe_dump(based, sort_keys=False), [])], [("base", None, None)]
    for where, path in (("namespace", (-3,)), ("nested namespace", (-3, -1)), ("class", (-2,)), ("function", (-1,))):
        for opt, val in (("F_line_length", 160), ("F_line_length", 30), ("C_line_length", 200), ("C_line_length", 30)):
            d2 = json.loads(json.dumps(based))
            node = d2
            for k in path:
                node = node["declarations"][k]
            node["options"] = {opt: val}
            njobs.append((os.path.join(wd, "scope-%d" % len(njobs)), _y.safe_dump(d2, sort_keys=False), []))
            nmeta.append((where, opt, val))
    nres = isolate.pmap(gen_with, njobs, ctx.workers)
    if nres[0][0] == "ok":
        bt = nres[0][1]
        owner = {"namespace": ("detail",), "nested namespace": ("deeper",), "class": ("Holder", "holder"), "function": ()}
        for (where, opt, val), (st, tree) in list(zip(nmeta, nres))[1:]:
            n += 1
            if st != "ok":
                ctx.violation("linelen scope generation %s %s" % (where, opt), "generation fails with %s=%d on a %s" % (opt, val, where), {"kind": "linelen"})
                continue
            for fn in sorted(bt):
                if fn.endswith((".json", ".yaml")) or any(tok in fn for tok in owner[where]):
                    continue  # the files of the scope that carries the option (and of scopes inside it)
                if tree.get(fn) != bt[fn] and where != "function":
                    a, b = bt[fn].decode().split("\n"), (tree.get(fn) or b"").decode().split("\n")
                    k = [i for i, (x, z) in enumerate(zip(a + ["<end>"], b + ["<end>"])) if x != z][0]
                    ctx.violation("linelen inner-scope-option %s %s" % (where, opt), "%s=%d on a %s changes %s, a file of the scope around it: line %d %r -> %r" % (
                        opt, val, where, fn, k + 1, a[k][:120], b[k][:120] if k < len(b) else None), {"kind": "linelen", "where": where, "opt": opt, "value": val})
                    break
                if where == "function" and tree.get(fn) is not None and isf(fn) == (opt == "C_line_length") and tree[fn] != bt[fn]:
                    # a Fortran option on one function leaves every C file alone, and the other way round
                    ctx.violation("linelen inner-scope-option %s %s" % (where, opt), "%s=%d on one function changes %s, a file of the other language family" % (opt, val, fn),
                                  {"kind": "linelen", "where": where, "opt": opt, "value": val})
                    break
    else:
        ctx.violation("linelen scope generation base", "generation of the scoped long-name library fails: %s" % (nres[0][1],), {"kind": "linelen"})
    ctx.part("line_length_options", descriptions=list(descs), combinations=combos, pairs_compared=n, inner_scope_cases=len(njobs) - 1)
    ctx.count(states=len(res), transitions=len(res) + n, validated=len(res) + n)


LONGARG = "a_rather_long_argument_name_of_forty_five_ch"


def long_atom_case(args):
    workdir, lang, cfi, skip = args
    from .. import atoms as A, gen
    from .c01 import l1_funcs
    fs = []
    for f in l1_funcs(2):
        if lang not in f.langs() or f.defaults or f.template or f.generic or f.name in skip:
            continue
        # the same function with its (first) argument under a long name, and itself under a long name
        g = A.Func(f.name + "_with_a_long_function_name", f.res, [(a, LONGARG if i == 0 else n) for i, (a, n) in enumerate(f.args)])
        fs.append(g)
    # one function that needs every kind of iso_c_binding at once (the use / import statements list them all)
    T = A.NATIVE
    fs.append(A.Func("every_kind_of_argument_in_one_call", A.BoolRes(), [(A.Val(T[tn]), "k%d" % i) for i, tn in enumerate(sorted(T))] + [(A.BoolVal(), "flag"), (A.CStrIn(), "text")]))
    lib = A.Library("Lname", fs, lang)
    r, tree = gen.gen_tree(workdir, lib.yaml({"wrap_python": False, "wrap_lua": False, "F_CFI": cfi}))
    if r.status != "ok":
        return (lang, cfi, "generation failed: %s %s" % (r.exc, (r.msg or "")[:300]), 0, 0)
    bad = []
    nl = 0
    for fn, data in sorted(tree.items()):
        if not fn.endswith(".f"):
            continue
        text = data.decode()
        for no, ln in enumerate(text.split("\n"), 1):
            nl += 1
            if ln.lstrip().startswith("!") or ln.startswith("#"):
                continue
            if len(ln) > 132:
                bad.append("%s line %d has %d columns: %s" % (fn, no, len(ln), ln.strip()[:150]))
            if "\t" in ln or "\f" in ln or "\r" in ln:
                bad.append("%s line %d contains a layout directive character: %r" % (fn, no, ln[:120]))
        for no, raw in orphan_lines(text)[:2]:
            bad.append("%s line %d starts in the middle of a statement without a continuation marker before it: %r" % (fn, no, raw))
    return (lang, cfi, bad, len(fs), nl)


def long_atom_names(ctx):
    """Every argument and result kind of the atom table under a 30-character argument name and a long function name: each
    statement the Fortran wrapper emits for it stays within 132 columns (break points where it needs them)."""
    wd = ctx.subdir("longatoms")
    from .c01 import l1_funcs, known_unbuildable, atom_sig
    # shapes recorded (under C05) as not generating or not compiling in a configuration are left out of that configuration
    jobs = [(os.path.join(wd, "%s-%d" % (lang, cfi)), lang, cfi,
             [f.name for f in l1_funcs(2) if known_unbuildable(ctx, atom_sig(f), lang, "c+f", int(cfi))]) for lang in ("c", "cxx") for cfi in (False, True)]
    res = isolate.pmap(long_atom_case, jobs, ctx.workers)
    nf = nl = 0
    for lang, cfi, bad, n, lines in res:
        nf += n
        nl += lines
        if isinstance(bad, str):
            ctx.violation("long-names generation %s cfi=%d" % (lang, cfi), "atom library with long names (%s, F_CFI=%s): %s" % (lang, cfi, bad), {"kind": "longatoms", "lang": lang, "cfi": cfi})
            continue
        for b in bad[:3]:
            ctx.violation("long-names fortran %s cfi=%d %s" % (lang, cfi, b.split(":")[0]), "atom library with long names (%s, F_CFI=%s): %s" % (lang, cfi, b), {"kind": "longatoms", "lang": lang, "cfi": cfi})
    ctx.part("long_names_atom_table", functions=nf, lines=nl, argument_name=LONGARG)
    ctx.count(states=nf, transitions=nl, validated=nl)


def run(ctx):
    quick = ctx.tier == "quick"
    W = ctx.workers
    # --- write_continue
    plans = []
    if quick:
        plans.append(("len<=6", 6, list(range(1, 11)), [0, 1, 2], ["", " &"], True, ["", " ", "    "]))
    else:
        plans.append(("len<=8", 8, list(range(1, 13)), [0, 1, 2], ["", " &"], True, ["", " ", "    "]))
        plans.append(("len<=10", 10, [3, 6, 9, 14], [0, 1], [" &"], False, [" ", "    "]))
    nsh = W * 4
    for label, maxlen, lls, inds, conts, cr, spaces in plans:
        jobs = [(maxlen, lls, inds, conts, cr, s, nsh, spaces) for s in range(nsh)]
        # permute visiting order only
        ctx.rng.shuffle(jobs)
        res = isolate.pmap(explore_continue, jobs, W)
        n = sum(r[0] for r in res)
        nl = sum(r[1] for r in res)
        ctx.count(states=nl, transitions=n, validated=n)
        ctx.nontrivial_n(nl)
        ctx.part("write_continue " + label, logical_lines=nl, executions=n, linelens=lls, indents=inds, markers=conts, indent_units=spaces)
        for r in res:
            for line, ll, ind, cont, sp, err in r[2]:
                ctx.violation("write_continue %r linelen=%d indent=%d cont=%r spaces=%r" % (line, ll, ind, cont, sp), err,
                              {"kind": "continue", "line": line, "linelen": ll, "indent": ind, "cont": cont, "spaces": sp})
    ctx.sample({"logical_line": "a\t b\fc", "linelen": 3, "indent": 1, "cont": " &", "spaces": " "})
    # --- write_lines
    lplans = [(3, 1, [0, 1, 2]), (2, 2, [1, 2])] if quick else [(4, 1, [0, 1, 2]), (3, 2, [0, 1, 2]), (1, 4, [2])]
    for maxlen, seqlen, inds in lplans:
        jobs = [(maxlen, seqlen, inds, s, nsh) for s in range(nsh)]
        res = isolate.pmap(explore_lines, jobs, W)
        n = sum(r[0] for r in res)
        sk = sum(r[1] for r in res)
        ctx.count(states=n, transitions=n, validated=n)
        ctx.nontrivial_n(n)
        ctx.part("write_lines len<=%d seq=%d" % (maxlen, seqlen), executions=n, outside_domain=sk)
        for r in res:
            for seq, ind, err in r[2]:
                ctx.violation("write_lines %r indent=%d" % (seq, ind), err, {"kind": "lines", "seq": seq, "indent": ind})
    ctx.sample({"directive_lines": ["+if (a) {", "x = 1;", "-}"], "indent": 0})
    # --- as_yaml + write_lines
    res = isolate.pmap(explore_as_yaml, [(s_, nsh) for s_ in range(nsh)], W)
    n = sum(r[0] for r in res)
    ctx.count(states=n, transitions=n, validated=n)
    ctx.part("as_yaml round trip", executions=n, values=len(YAML_VALUES))
    for r in res:
        for obj, ind, err in r[1]:
            ctx.violation("as_yaml %s" % sorted(type(v).__name__ for v in obj.values()), err, {"kind": "as_yaml", "obj": obj, "indent": ind})
    # --- listify
    r = isolate.call_in_child(explore_listify, (4 if quick else 6,), timeout=300)
    if r.status != "ok":
        ctx.violation("listify exploration", "listify exploration failed: %s %s" % (r.exc, r.msg), {"kind": "listify"})
    else:
        n, lbad = r.value
        ctx.count(states=n, transitions=n, validated=n)
        ctx.part("listify", executions=n)
        for text, err in lbad:
            ctx.violation("listify %r" % text, err, {"kind": "listify", "text": text})
    # --- generated Fortran files
    fortran_line_limit(ctx)
    line_length_options(ctx)
    long_atom_names(ctx)
    ctx.cov["rule"] = (
        "every logical line over {letter, blank, TAB, FF} (+ leading CR) up to the length bound x every "
        "line length x indent x marker, executed on the real write_continue; every directive line (sequence) "
        "over {x + - @ ^ # blank} on the real write_lines; every line of every Fortran file of the corpus. "
        "states = distinct logical inputs, transitions = executions; all executions are compared with the oracle"
    )
    ctx.cov["bounds"] = {"tier": ctx.tier, "plans": [p[0] for p in plans]}
    ctx.assumptions += [
        "blank is the only non-hint whitespace in the alphabet; carriage return only in leading position",
        "directive lines that leave no text to emit (e.g. '-' or '+' alone) are outside the domain",
    ]


def replay(ctx, path):
    import json

    with open(path) as fp:
        p = json.load(fp)["payload"]
    w = make_writer()
    if p["kind"] == "continue":
        err = check_continue(w, p["line"], p["linelen"], p["indent"], p["cont"], p.get("spaces", SP))
    elif p["kind"] == "lines":
        err = check_lines(w, p["seq"], p["indent"])
    else:
        fortran_line_limit(ctx, only=[p["config"][0]])
        return
    if err and err != "skip":
        ctx.violation("replay", err, p)
    ctx.count(states=1, transitions=1, validated=1)
