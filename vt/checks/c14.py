"""C14 - equivalent ways of stating the same customisation give identical output.

(1) every function-scoped option / format field x value x container: set on the container ==
    set on every function declaration inside it (and nowhere else);
(2) every attribute inline (+attr) == the same attribute under attrs / fattrs;
(3) every split of an option set between --option/--language and the YAML fields;
(4) every grouping of a declaration list into empty blocks;
(5) shroud.create_wrapper == the command line.
Oracle: byte equality of complete output directories (same relative output path).
"""
from __future__ import annotations

import copy
import itertools
import json
import os
import re
import shutil

import yaml

from .. import libs, gen, isolate

BASE = """\
library: Place
cxx_header: place.hpp
options:
  wrap_python: true
  wrap_lua: true
declarations:
- decl: void libfn(const std::string &s, int *v +rank(1), int n +implied(size(v)))
- decl: int *libfn2(int a)
- decl: namespace ns
  declarations:
  - decl: void nsfn(const std::string &s)
  - decl: const std::string nsfn2(int a = 1)
  - decl: class Cls
    declarations:
    - decl: Cls()
    - decl: ~Cls()
    - decl: void meth(const std::string &s)
    - decl: int *meth2(double *v +rank(1))
    - block: true
      declarations:
      - decl: const std::string &bmeth()
      - decl: void bmeth2(std::vector<int> &v +intent(out))
  - block: true
    declarations:
    - decl: void blkfn(char *s +intent(out)+charlen(10))
    - decl: double *blkfn2(int n) +dimension(n)
- block: true
  declarations:
  - decl: class Grp
    declarations:
    - decl: Grp()
    - decl: void gmeth(const std::string &s)
    - decl: int *gmeth2(double *v +rank(1))
  - decl: void blkfn3(const std::string &s)
"""
# A C library: plain functions need no C or Fortran wrapper unless one is forced
BASE_C = """\
library: PlaceC
language: c
cxx_header: placec.h
options:
  wrap_python: true
  wrap_lua: false
declarations:
- decl: int c_add(int a, int b)
- decl: double c_scale(double x)
- decl: void c_name(const char *name)
- block: true
  declarations:
  - decl: int c_sub(int a, int b)
  - decl: int *c_ptr(void)
  - decl: void c_fill(char *buf +intent(out)+charlen(8))
"""
CONTAINERS_C = {
    "library": (),
    "block": ("declarations", 3),
}
# container -> path of keys/indices to the mapping that carries options/format
CONTAINERS = {
    "library": (),
    "namespace": ("declarations", 2),
    "class": ("declarations", 2, "declarations", 2),
    "block-in-class": ("declarations", 2, "declarations", 2, "declarations", 4),
    "block-in-namespace": ("declarations", 2, "declarations", 3),
    "block-with-class": ("declarations", 3),
}
# function-scoped settings, vetted against the code (see DESIGN.md section 3 C14)
OPTIONS = [
    ("C_force_wrapper", True),
    ("F_force_wrapper", True),
    ("F_create_generic", False),
    ("F_create_bufferify_function", False),
    ("F_string_len_trim", False),
    ("return_scalar_pointer", "scalar"),
    ("F_CFI", True),
    ("PY_array_arg", "list"),
    ("C_name_template", "{C_prefix}zz_{C_name_scope}{underscore_name}{function_suffix}{template_suffix}"),
    ("F_name_impl_template", "zz_{F_name_scope}{underscore_name}{function_suffix}{template_suffix}"),
    ("F_C_name_template", "{F_C_prefix}zz_{F_name_scope}{underscore_name}{function_suffix}{template_suffix}"),
    ("F_name_generic_template", "zz_{underscore_name}"),
    ("F_name_function_template", "zz_{underscore_name}{function_suffix}{template_suffix}"),
    ("PY_name_impl_template", "{PY_prefix}zz_{function_name}{function_suffix}{template_suffix}"),
    ("LUA_name_template", "zz_{function_name}"),
    ("C_var_len_template", "ZL{c_var}"),
    ("C_var_trim_template", "ZT{c_var}"),
    ("C_var_size_template", "ZS{c_var}"),
    ("C_var_context_template", "ZD{c_var}"),
    ("C_var_capsule_template", "ZC{c_var}"),
    ("debug", True),
    ("doxygen", False),
    ("literalinclude", True),
]
COMMENT_ONLY = {"debug", "doxygen", "literalinclude"}
# Settings a container consumes for entities of its own; compared only on containers that have none:
# the class's get_instance/set_instance/associated procedures take their names from the same templates,
# library-level literalinclude regroups the Fortran interface blocks (documented, excluded by the property).
ONLY_ON = {
    "F_name_function_template": ("block-in-class", "block-in-namespace"),
    "F_name_impl_template": ("block-in-class", "block-in-namespace"),
    "literalinclude": ("namespace", "class", "block-in-class", "block-in-namespace", "block-with-class"),
}
FORMATS = [
    ("F_C_prefix", "q_"),
    ("C_this", "me"),
    ("C_result", "res"),
    ("F_result", "fres"),
    ("C_bufferify_suffix", "_zbuf"),
    ("C_string_result_as_arg", "outstr"),
]


TEMPLATE_BASE = """\
library: Tmpl
cxx_header: tmpl.hpp
options:
  wrap_python: false
  wrap_lua: false
declarations:
- decl: template<typename T> class Box
  cxx_template:
  - instantiation: <int>
  - instantiation: <double>
  declarations:
  - decl: Box()
  - decl: ~Box()
  - decl: void put(T value)
    doxygen:
      brief: store a value
  - decl: T get()
    doxygen:
      brief: fetch the value
  - decl: void label(const std::string &text, int *status +intent(out))
"""


# wrapper selection is function-scoped as well: everything off at library level, switched on at one place
WRAP_BASE = """\
library: Wsel
cxx_header: wsel.hpp
options:
  wrap_c: false
  wrap_fortran: false
  wrap_python: false
  wrap_lua: false
declarations:
- decl: int topfn(int a)
- decl: namespace outer
  declarations:
  - decl: int outerfn(int a)
  - decl: namespace inner
    declarations:
    - decl: int innerfn(int a)
    - decl: double innerfn2(double a)
  - decl: namespace other
    declarations:
    - decl: namespace deep
      declarations:
      - decl: int deepfn(int a)
"""
WRAP_CONTAINERS = {
    "library": (),
    "outer": ("declarations", 1),
    "inner": ("declarations", 1, "declarations", 1),
    "other": ("declarations", 1, "declarations", 2),
    "deep": ("declarations", 1, "declarations", 2, "declarations", 0),
}
WRAP_SETTINGS = [{"wrap_python": True}, {"wrap_lua": True}, {"wrap_c": True}, {"wrap_c": True, "wrap_fortran": True}, {"wrap_c": True, "wrap_python": True}]


# (1e) an option that is not in the default table (read with options.get): reaches a function from any distance
EXTERN_BASE = """\
library: ext
cxx_header: ext.hpp
options:
  wrap_python: false
  wrap_lua: false
declarations:
- decl: int top_count(int n)
- decl: namespace inner
  declarations:
  - decl: double scale(double x, int n)
  - decl: namespace deep
    declarations:
    - decl: void reset()
    - block: true
      declarations:
      - decl: int depth(int n)
- block: true
  declarations:
  - decl: namespace boxed
    declarations:
    - decl: int inside(int n)
"""
EXTERN_CONTAINERS = {
    "library": (),
    "namespace": ("declarations", 1),
    "nested-namespace": ("declarations", 1, "declarations", 1),
    "block-in-nested-namespace": ("declarations", 1, "declarations", 1, "declarations", 1),
    "block-around-namespace": ("declarations", 2),
}


# (1f) options read while generic variants are expanded (assumed rank): the function's own scope decides
ARANK_BASE = EXTERN_BASE.replace("int top_count(int n)", "int top_count(double *v +dimension(..), int n)").replace(
    "double scale(double x, int n)", "double scale(double *x +dimension(..), int n)").replace(
    "int depth(int n)", "int depth(int *v +dimension(..))").replace("int inside(int n)", "int inside(float *v +dimension(..))")


# (1g) callbacks with unnamed parameters: the names of the abstract interface and of its dummy arguments come from
# options of the function's own scope
CALLB_BASE = EXTERN_BASE.replace("int top_count(int n)", "int top_count(int (*incr)(int), int n)").replace(
    "double scale(double x, int n)", "double scale(double (*weigh)(double, int), int n)").replace(
    "int depth(int n)", "int depth(void (*visit)(int, int))").replace("int inside(int n)", "int inside(int (*pick)(int), int n)")
# (1i) data members of a class (scalars, pointers with a dimension, strings), also grouped by a block: the getters and setters
# Python gets for them follow the member's own options like a method follows its own
MEMBER_BASE = """\
library: members
cxx_header: members.hpp
options:
  wrap_python: true
  wrap_lua: false
declarations:
- decl: class Samples
  declarations:
  - decl: Samples()
  - decl: int nitems +readonly
  - decl: double *values +dimension(nitems)
  - decl: void scale(double *factors +intent(in)+rank(1), int n +implied(size(factors)))
  - block: true
    declarations:
    - decl: int *counts +dimension(nitems)
    - decl: double ratio
    - decl: int sum(int *terms +intent(in)+rank(1), int n +implied(size(terms)))
- decl: namespace outer
  declarations:
  - decl: class Inner
    declarations:
    - decl: Inner()
    - decl: float *weights +dimension(3)
    - decl: double total
"""
MEMBER_CONTAINERS = {"library": (), "class": ("declarations", 0), "block-in-class": ("declarations", 0, "declarations", 4), "namespace": ("declarations", 1),
                     "class-in-namespace": ("declarations", 1, "declarations", 0)}
MEMBER_SETTINGS = [("C_name_template", "{C_prefix}zz_{C_name_scope}{underscore_name}{function_suffix}{template_suffix}"), ("F_force_wrapper", True),
                   ("F_C_name_template", "{F_C_prefix}zz_{F_name_scope}{underscore_name}{function_suffix}{template_suffix}"), ("wrap_fortran", False),
                   ("PY_array_arg", "list"), ("PY_member_getter_template", "{PY_prefix}{cxx_class}_{variable_name}_zget"),
                   ("PY_member_setter_template", "{PY_prefix}{cxx_class}_{variable_name}_zset"), ("debug", True)]
# (1h) a struct and the functions that take it: PY_struct_arg stated on the library == stated on the struct and on every function
STRUCT_ARG_BASE = """\
library: sarg
language: c
cxx_header: sarg.h
options:
  wrap_python: true
  wrap_lua: false
  PY_array_arg: list
declarations:
- decl: struct Point { int x; double y; };
- decl: double norm(const Point *p)
- block: true
  declarations:
  - decl: struct Cell { int i; int j; };
  - decl: int corner(Cell *c +intent(inout))
"""


# (1d) enumerations: a setting on the enum declaration itself == the same setting on a block that holds only that enum
ENUM_BASE = """\
library: En
cxx_header: en.hpp
options:
  wrap_python: true
  wrap_lua: false
declarations:
- decl: enum Color { RED = 10, BLUE, WHITE };
- decl: enum Shade { LIGHT, DARK };
- decl: int brightness(Color c)
- decl: namespace ns
  declarations:
  - decl: enum Kind { ONE, TWO }
  - decl: int kind_of(Kind k)
- decl: class Cls
  declarations:
  - decl: enum Mode { ON, OFF = 4 }
  - decl: Cls()
"""
ENUM_SITES = {"library": ("declarations", 0), "namespace": ("declarations", 3, "declarations", 0), "class": ("declarations", 4, "declarations", 0)}
ENUM_SETTINGS = [
    ("options", "C_enum_template", "{C_prefix}{C_name_scope}{enum_name}_zz"),
    ("options", "C_enum_member_template", "{C_prefix}{C_name_scope}{enum_name}_{enum_member_name}"),
    ("options", "F_enum_member_template", "{F_name_scope}{enum_lower}_{enum_member_lower}"),
    ("options", "C_enum_member_template", "ZZ_{enum_member_name}"),
    ("options", "F_enum_member_template", "zz_{enum_member_lower}"),
]


def enum_pair(base, kind, name, value, site):
    a = copy.deepcopy(base)
    b = copy.deepcopy(base)
    node_at(a, ENUM_SITES[site]).setdefault(kind, {})[name] = value
    path = ENUM_SITES[site]
    parent = node_at(b, path[:-1])
    parent[path[-1]] = {"block": True, kind: {name: value}, "declarations": [parent[path[-1]]]}
    return a, b


def node_at(tree, path):
    n = tree
    for p in path:
        n = n[p]
    return n


def functions_under(node):
    """Every function declaration mapping nested under a container mapping."""
    out = []
    for d in node.get("declarations", []):
        if "block" in d:
            out += functions_under(d)
        elif "decl" in d:
            text = d["decl"].strip()
            if text.startswith(("namespace ", "class ", "struct ", "enum ", "typedef ")):
                out += functions_under(d)
            else:
                out.append(d)
    return out


def placement_pair(base, kind, name, value, container, containers=None):
    containers = containers or CONTAINERS
    a = copy.deepcopy(base)
    b = copy.deepcopy(base)
    na = node_at(a, containers[container])
    na.setdefault(kind, {})[name] = value
    nb = node_at(b, containers[container])
    for f in functions_under(nb):
        f.setdefault(kind, {})[name] = value
    return a, b


def compare_case(args):
    """Generate two descriptions; compare the output directories."""
    workdir, label, da, db, argv_a, argv_b, comment_only = args[:7]
    only = args[7] if len(args) > 7 else None
    differ = len(args) > 8 and args[8] == "differ"
    ra, ta = gen.gen_tree(os.path.join(workdir, "a"), da, argv_a)
    rb, tb = gen.gen_tree(os.path.join(workdir, "b"), db, argv_b)
    shutil.rmtree(workdir, ignore_errors=True)
    if ra.status != "ok" or rb.status != "ok":
        if ra.status == rb.status == "diagnostic":
            return (label, "both-rejected", "%s: %s" % (ra.exc, (ra.msg or "").strip().split("\n")[-1][:160]))
        return (label, "bad", "generation: first %s %s %s / second %s %s %s" % (
            ra.status, ra.exc, (ra.msg or "")[:150], rb.status, rb.exc, (rb.msg or "")[:150]))
    if only:
        ta = {k: v for k, v in ta.items() if only in k}
        tb = {k: v for k, v in tb.items() if only in k}
        if not ta:
            return (label, "bad", "no generated file belongs to %s" % only)
    if comment_only:
        ta = {k: gen.strip_comments(k, v).encode() for k, v in ta.items()}
        tb = {k: gen.strip_comments(k, v).encode() for k, v in tb.items()}
    if differ:
        return (label, "ok", len(ta)) if ta != tb else (label, "bad", "the setting changes nothing in the output: it is ignored where it is written")
    if ta != tb:
        return (label, "bad", "\n".join(isolate.diff_trees(ta, tb, limit=2)))
    return (label, "ok", len(ta))


# ---------------------------------------------------------------- (2) attributes
# (site, declaration with the attribute inline, declaration without, attrs/fattrs mapping)
ATTR_CASES = [
    ("arg", "void f(int *a +intent(in))", "void f(int *a)", {"attrs": {"a": {"intent": "in"}}}),
    ("arg", "void f(int *a +intent(out))", "void f(int *a)", {"attrs": {"a": {"intent": "out"}}}),
    ("arg", "void f(int *a +intent(inout))", "void f(int *a)", {"attrs": {"a": {"intent": "inout"}}}),
    ("arg", "void f(int *a +intent(IN))", "void f(int *a)", {"attrs": {"a": {"intent": "IN"}}}),
    ("arg", "void f(int *a +intent(OUT))", "void f(int *a)", {"attrs": {"a": {"intent": "OUT"}}}),
    ("arg", "void f(int *a +intent(INOUT))", "void f(int *a)", {"attrs": {"a": {"intent": "INOUT"}}}),
    ("arg", "void f(const char *s +intent(IN), char *t +intent(Out)+charlen(8))", "void f(const char *s, char *t +charlen(8))", {"attrs": {"s": {"intent": "IN"}, "t": {"intent": "Out"}}}),
    ("arg", "void f(double *v +rank(1))", "void f(double *v)", {"attrs": {"v": {"rank": 1}}}),
    ("arg", "void f(double *v +rank(2)+intent(in))", "void f(double *v)", {"attrs": {"v": {"rank": 2, "intent": "in"}}}),
    ("arg", "void f(double *v +dimension(n), int n)", "void f(double *v, int n)", {"attrs": {"v": {"dimension": "n"}}}),
    ("arg", "void f(double *v +rank(1), int n +implied(size(v)))", "void f(double *v +rank(1), int n)", {"attrs": {"n": {"implied": "size(v)"}}}),
    ("arg", "void f(int *a +intent(out)+hidden)", "void f(int *a +intent(out))", {"attrs": {"a": {"hidden": True}}}),
    ("arg", "void f(int *a +value)", "void f(int *a)", {"attrs": {"a": {"value": True}}}),
    ("arg", "void f(char *s +intent(out)+charlen(20))", "void f(char *s +intent(out))", {"attrs": {"s": {"charlen": 20}}}),
    ("arg", "void f(int **a +intent(out)+deref(raw))", "void f(int **a +intent(out))", {"attrs": {"a": {"deref": "raw"}}}),
    ("arg", "void f(std::vector<int> &v +intent(out)+deref(allocatable))", "void f(std::vector<int> &v +intent(out))", {"attrs": {"v": {"deref": "allocatable"}}}),
    ("arg", "void f(void *p +assumedtype)", "void f(void *p)", {"attrs": {"p": {"assumedtype": True}}}),
    ("arg", "void f(int *a +cdesc+rank(1))", "void f(int *a +rank(1))", {"attrs": {"a": {"cdesc": True}}}),
    ("arg", "void f(std::string &s +len(30)+intent(out))", "void f(std::string &s +intent(out))", {"attrs": {"s": {"len": 30}}}),
    ("fcn", "int *f() +owner(caller)", "int *f()", {"fattrs": {"owner": "caller"}}),
    ("fcn", "int *f() +deref(raw)", "int *f()", {"fattrs": {"deref": "raw"}}),
    ("fcn", "int *f(int n) +dimension(n)", "int *f(int n)", {"fattrs": {"dimension": "n"}}),
    ("fcn", "int *f(int n) +dimension(n)+deref(allocatable)", "int *f(int n)", {"fattrs": {"dimension": "n", "deref": "allocatable"}}),
    ("fcn", "const char *f() +len(30)", "const char *f()", {"fattrs": {"len": 30}}),
    ("fcn", "const std::string &f() +deref(allocatable)", "const std::string &f()", {"fattrs": {"deref": "allocatable"}}),
    ("fcn", "int f() +name(other)", "int f()", {"fattrs": {"name": "other"}}),
    ("fcn", "int f(int a) +pure", "int f(int a)", {"fattrs": {"pure": True}}),
    ("fcn", "int *f(int n) +rank(1)", "int *f(int n)", {"fattrs": {"rank": 1}}),
]


def attr_desc(decl, extra=None, debug=False):
    d = {"library": "Attr", "cxx_header": "attr.hpp", "options": {"wrap_python": True, "wrap_lua": True, "PY_array_arg": "list"},
         "declarations": [dict({"decl": decl}, **(extra or {})), {"decl": "int sibling(int x)"}]}
    if debug:
        d["options"]["debug"] = True  # the wrappers then carry what was recorded for each argument as comments
    return d


# ---------------------------------------------------------------- (3) CLI vs YAML
OPTSET = [
    ("option", "debug", True, "debug=true"),
    ("option", "F_force_wrapper", True, "F_force_wrapper=True"),
    ("option", "wrap_lua", False, "wrap_lua=false"),
    ("option", "C_line_length", 60, "C_line_length=60"),
    ("option", "F_module_name_library_template", "zz_{library_lower}_mod", "F_module_name_library_template=zz_{library_lower}_mod"),
    ("language", "language", "c", "c"),
]
CLI_BASE = """\
library: Cli
cxx_header: cli.h
options:
  wrap_python: true
  wrap_lua: true
declarations:
- decl: int c_add(int a, int b)
- decl: void c_fill(char *buf +intent(out)+charlen(20), const char *from)
- decl: double c_sum(const double *v +rank(1), int n +implied(size(v)), const char *a_rather_long_argument_name, const char *another_long_argument_name)
"""

# ---------------------------------------------------------------- (4) blocks
BLOCK_BASE = """\
library: Blk
cxx_header: blk.hpp
options:
  wrap_python: true
  wrap_lua: true
declarations:
- decl: int f1(int a)
- decl: void f2(const std::string &s)
- decl: void f2(int s)
- decl: enum Color { RED, BLUE }
- decl: double f3(double *v +rank(1))
- decl: namespace inner
  declarations:
  - decl: int inner_func(int n)
  - decl: class Counter
    declarations:
    - decl: Counter()
    - decl: void add(int n)
"""


# the members of a class (constructor, destructor, methods, overloads, an enum) grouped into empty blocks
BLOCK_CLASS_BASE = """\
library: Blk
cxx_header: blk.hpp
options:
  wrap_python: true
  wrap_lua: true
declarations:
- decl: class Widget
  declarations:
  - decl: Widget()
  - decl: Widget(int n)
  - decl: ~Widget()
  - decl: int size() const
  - decl: enum Mode { ON, OFF }
  - decl: void rename(const std::string &s)
"""


def compositions(n):
    """All ways to cut a list of n items into contiguous groups."""
    for cuts in itertools.product([0, 1], repeat=n - 1):
        groups = []
        cur = [0]
        for i, c in enumerate(cuts, 1):
            if c:
                groups.append(cur)
                cur = [i]
            else:
                cur.append(i)
        groups.append(cur)
        yield groups


# ---------------------------------------------------------------- (5) create_wrapper
EARLIER_TUT = """\
library: Tutorial
cxx_header: tutorial.hpp
namespace: tutorial
declarations:
- decl: class Class1
  declarations:
  - decl: Class1()
  - decl: int method1(int a)
- decl: typedef int Index
- decl: enum Color { RED, BLUE }
- decl: Index count(Color c)
"""


def create_wrapper_case(args):
    """args: (workdir, text[, earlier]) - with 'earlier', another library goes through create_wrapper first in the same interpreter
    (a setup.py that wraps two libraries): the call for the second one is still the command line for the second one."""
    workdir, text = args[:2]
    earlier = args[2] if len(args) > 2 else None
    os.makedirs(os.path.join(workdir, "a", "out"))
    if earlier:
        os.makedirs(os.path.join(workdir, "e", "out"))
        with open(os.path.join(workdir, "e", "lib.yaml"), "w") as fp:
            fp.write(earlier)
    os.makedirs(os.path.join(workdir, "b"))
    with open(os.path.join(workdir, "a", "lib.yaml"), "w") as fp:
        fp.write(text)

    def body():
        import shroud

        if earlier:
            os.chdir(os.path.join(workdir, "e"))
            shroud.create_wrapper("lib.yaml", outdir="out", path=["."])
        os.chdir(os.path.join(workdir, "a"))
        cfg = shroud.create_wrapper("lib.yaml", outdir="out", path=["."])
        return sorted(cfg.cfiles) + sorted(cfg.ffiles)

    r = isolate.call_in_child(body, (), timeout=60)
    rb, tb = gen.gen_tree(os.path.join(workdir, "b"), text, ["--path", "."])
    ta = isolate.read_tree(os.path.join(workdir, "a", "out")) if r.status == "ok" else {}
    # create_wrapper has no --logdir: the log and json go to the current directory
    shutil.rmtree(workdir, ignore_errors=True)
    if r.status != "ok":
        return ("create_wrapper", "bad", "create_wrapper('lib.yaml', outdir='out', path=['.']) failed: %s %s: %s at %s" % (r.status, r.exc, r.msg, r.site))
    if rb.status != "ok":
        return ("create_wrapper", "bad", "command line failed: %s" % rb.msg)
    if ta != tb:
        return ("create_wrapper", "bad", ("after another library in the same interpreter: " if earlier else "") + "\n".join(isolate.diff_trees(tb, ta, 2)))
    if not r.value and any(k.endswith((".c", ".cpp", ".h", ".f")) and not k.startswith(("py", "lua")) for k in ta):
        return ("create_wrapper", "bad", "create_wrapper returned a config without file lists")
    return ("create_wrapper", "ok", len(ta))


def run(ctx):
    quick = ctx.tier == "quick"
    W = ctx.workers
    wd = ctx.subdir("w")
    jobs = []
    k = [0]

    def add(label, da, db, argv_a=(), argv_b=(), comment_only=False):
        k[0] += 1
        jobs.append((os.path.join(wd, "j%d" % k[0]), label, da, db, list(argv_a), list(argv_b), comment_only))

    base = yaml.safe_load(BASE)
    # (1)
    settings = [("options", n, v) for n, v in OPTIONS] + [("format", n, v) for n, v in FORMATS]
    for kind, name, value in settings:
        for container in CONTAINERS:
            if container not in ONLY_ON.get(name, CONTAINERS):
                continue
            pbase = base
            if name in ("F_create_bufferify_function", "F_string_len_trim"):
                # a vector argument cannot be wrapped without the bufferify function (shroud says so and stops): the relation is
                # decided on the description without that one method
                pbase = copy.deepcopy(base)
                blockdecls = node_at(pbase, CONTAINERS["block-in-class"])["declarations"]
                blockdecls[:] = [d for d in blockdecls if "std::vector" not in d["decl"]]
            a, b = placement_pair(pbase, kind, name, value, container)
            add(("placement", kind, name, container), a, b, comment_only=name in COMMENT_ONLY)
    base_c = yaml.safe_load(BASE_C)
    for kind, name, value in settings:
        if name.startswith(("LUA_", "CXX_")) or name in ("C_this",):
            continue
        for container in CONTAINERS_C:
            if name in ONLY_ON and container == "library" and name == "literalinclude":
                continue
            a, b = placement_pair(base_c, kind, name, value, container, CONTAINERS_C)
            add(("placement", kind, name, "C-" + container), a, b, comment_only=name in COMMENT_ONLY)
    # (1c) wrap_* switched on for a container equals switching it on for every function inside, at any nesting depth
    wbase = yaml.safe_load(WRAP_BASE)
    for setting in WRAP_SETTINGS:
        for container in WRAP_CONTAINERS:
            a = copy.deepcopy(wbase)
            b = copy.deepcopy(wbase)
            node_at(a, WRAP_CONTAINERS[container]).setdefault("options", {}).update(setting)
            for f in functions_under(node_at(b, WRAP_CONTAINERS[container])):
                f.setdefault("options", {}).update(setting)
            add(("wrap-placement", "+".join(sorted(setting)), container), a, b)
    xbase = yaml.safe_load(EXTERN_BASE)
    for container in EXTERN_CONTAINERS:
        a, b = placement_pair(xbase, "options", "C_extern_C", True, container, EXTERN_CONTAINERS)
        add(("placement", "options", "C_extern_C", "extern-" + container), a, b)
    cbase = yaml.safe_load(CALLB_BASE)
    for oname, oval in (("F_abstract_interface_argument_template", "v{index}"), ("F_abstract_interface_subprogram_template", "cb_{underscore_name}_{argname}")):
        for container in EXTERN_CONTAINERS:
            a, b = placement_pair(cbase, "options", oname, oval, container, EXTERN_CONTAINERS)
            add(("placement", "options", oname, "callback-" + container), a, b)
    sbase = yaml.safe_load(STRUCT_ARG_BASE)
    for sval in ("class", "list"):
        for container, path in (("library", ()), ("block", ("declarations", 2))):
            a = copy.deepcopy(sbase)
            b = copy.deepcopy(sbase)
            node_at(a, path).setdefault("options", {})["PY_struct_arg"] = sval
            for dnode in ([x for x in node_at(b, path)["declarations"] if "decl" in x] + ([y for x in node_at(b, path)["declarations"] if "block" in x for y in x["declarations"]] if container == "library" else [])):
                dnode.setdefault("options", {})["PY_struct_arg"] = sval
            add(("placement", "options", "PY_struct_arg=" + sval, "struct-" + container), a, b)
    mbase = yaml.safe_load(MEMBER_BASE)
    for oname, oval in MEMBER_SETTINGS:
        for container in MEMBER_CONTAINERS:
            if oname == "wrap_fortran" and container != "block-in-class":
                continue  # a class, a namespace and the library have Fortran entities of their own (type, module, file)
            a, b = placement_pair(mbase, "options", oname, oval, container, MEMBER_CONTAINERS)
            add(("placement", "options", oname, "member-" + container), a, b, comment_only=oname in COMMENT_ONLY)
            if oname not in ("debug", "F_force_wrapper"):  # accessors always have a wrapper: forcing one changes nothing
                k[0] += 1
                jobs.append((os.path.join(wd, "j%d" % k[0]), ("enum-setting-acts", oname, oval, "member-" + container), a, mbase, [], [], False, None, "differ"))
    abase = yaml.safe_load(ARANK_BASE)
    for oname, oval in (("F_assumed_rank_max", 2), ("F_assumed_rank_min", 1)):
        for container in EXTERN_CONTAINERS:
            a, b = placement_pair(abase, "options", oname, oval, container, EXTERN_CONTAINERS)
            add(("placement", "options", oname, "arank-" + container), a, b)
            if container != "library":
                # and it acts there: the output differs from the unset description
                k[0] += 1
                jobs.append((os.path.join(wd, "j%d" % k[0]), ("enum-setting-acts", oname, oval, "arank-" + container), a, abase, [], [], False, None, "differ"))
    ebase = yaml.safe_load(ENUM_BASE)
    for kind, name, value in ENUM_SETTINGS:
        for site in ENUM_SITES:
            a, b = enum_pair(ebase, kind, name, value, site)
            add(("enum-placement", name, value, site), a, b)
            # and the setting acts: the output differs from the unset library
            k[0] += 1
            jobs.append((os.path.join(wd, "j%d" % k[0]), ("enum-setting-acts", name, value, site), a, ebase, [], [], False, None, "differ"))
    # (1b) instantiations of a class template are scopes of their own: options on one instantiation leave the sibling
    # untouched, and options on every instantiation equal options on the class
    tbase = yaml.safe_load(TEMPLATE_BASE)
    for kind, name, value in settings:
        if kind != "options" or name in ("F_name_generic_template",):
            continue
        def with_opts(which):
            d = copy.deepcopy(tbase)
            cls = d["declarations"][0]
            if which == "class":
                cls.setdefault("options", {})[name] = value
            else:
                for inst in cls["cxx_template"]:
                    if which == "each" or inst["instantiation"] == which:
                        inst.setdefault("options", {})[name] = value
            return d
        k[0] += 1
        jobs.append((os.path.join(wd, "j%d" % k[0]), ("template-sibling", name), with_opts("<int>"), with_opts(None), [], [], name in COMMENT_ONLY, "Box_double"))
        add(("template-each", name), with_opts("each"), with_opts("class"), comment_only=name in COMMENT_ONLY)
    # (1b2) a block: inside a class template groups methods like anywhere else: what the block sets reaches every instantiation
    tblk = copy.deepcopy(tbase)
    tmeth = tblk["declarations"][0]["declarations"]
    tblk["declarations"][0]["declarations"] = tmeth[:2] + [{"block": True, "declarations": [tmeth[2], {"block": True, "declarations": [tmeth[3]]}]}, tmeth[4]]
    TB = {"template-block": ("declarations", 0, "declarations", 2), "template-inner-block": ("declarations", 0, "declarations", 2, "declarations", 1)}
    for kind, name, value in settings + [("options", "wrap_fortran", False), ("options", "wrap_c", False)]:
        if name in ("F_name_generic_template", "PY_array_arg", "PY_name_impl_template", "LUA_name_template"):
            continue
        for container in TB:
            a, b = placement_pair(tblk, kind, name, value, container, TB)
            add(("placement", kind, name, container), a, b, comment_only=name in COMMENT_ONLY)
            if name in ("C_this", "wrap_fortran", "wrap_c", "F_C_name_template", "C_name_template"):
                k[0] += 1
                jobs.append((os.path.join(wd, "j%d" % k[0]), ("enum-setting-acts", name, value, container), a, tblk, [], [], False, None, "differ"))
    # sibling unaffected: setting on one container leaves functions outside it byte-identical is implied by (1) both ways
    # (2)
    for site, inline, plain, extra in ATTR_CASES:
        add(("attribute", site, inline), attr_desc(inline), attr_desc(plain, extra))
        add(("attribute", site + "+debug", inline), attr_desc(inline, debug=True), attr_desc(plain, extra, debug=True))
        # the same on declarations from which further functions are derived: fortran_generic variants, default-argument variants
        if site == "arg" and inline.endswith(")") and plain.endswith(")") and "std::vector" not in inline and "void *p" not in inline:
            gen = {"fortran_generic": [{"decl": "(float scale)"}, {"decl": "(double scale)"}]}
            gi, gp = inline[:-1] + ", double scale)", plain[:-1] + ", double scale)"
            add(("attribute", site + "+fortran_generic", gi), attr_desc(gi, dict(gen)), attr_desc(gp, dict(extra, **gen)))
            # generic declarations that restate the attributed argument itself (generic.yaml: '(int *values)', '(int *values +rank(1))'):
            # what they leave unsaid is unsaid under both spellings
            m1 = re.match(r"void f\((int|double) \*(\w+)\b", plain)
            if m1 and "+rank" not in inline and "cdesc" not in inline and "+dimension" not in inline:
                gen2 = {"fortran_generic": [{"decl": "(%s *%s)" % (m1.group(1), m1.group(2)), "function_suffix": "_scalar"},
                                            {"decl": "(%s *%s +rank(1))" % (m1.group(1), m1.group(2)), "function_suffix": "_array"}]}
                add(("attribute", site + "+fortran_generic-restated", inline), attr_desc(inline, dict(gen2)), attr_desc(plain, dict(extra, **gen2)))
            di, dp = inline[:-1] + ", int k = 1)", plain[:-1] + ", int k = 1)"
            add(("attribute", site + "+default", di), attr_desc(di), attr_desc(dp, extra))
    # (3)
    cli_base = yaml.safe_load(CLI_BASE)
    nopt = len(OPTSET)
    full = copy.deepcopy(cli_base)
    for kind, name, val, cli in OPTSET:
        if kind == "option":
            full["options"][name] = val
        else:
            full["language"] = val
    splits = list(itertools.product([0, 1], repeat=nopt))
    if quick:
        splits = [s for s in splits if sum(s) in (1, nopt)] + [s for s in splits if sum(s) == 2][:5]
    for split in splits:
        if not any(split):
            continue
        d = copy.deepcopy(cli_base)
        argv = []
        for on_cli, (kind, name, val, cli) in zip(split, OPTSET):
            if on_cli:
                argv += ["--option", cli] if kind == "option" else ["--language", cli]
            elif kind == "option":
                d["options"][name] = val
            else:
                d["language"] = val
        add(("cli-vs-yaml", "".join(map(str, split))), full, d, (), argv)
    # the command line replaces a value the YAML file also gives
    d = copy.deepcopy(cli_base)
    d["language"] = "c++"
    d["options"]["debug"] = False
    d["options"]["C_line_length"] = 100
    e = copy.deepcopy(cli_base)
    e["language"] = "c"
    e["options"]["debug"] = True
    e["options"]["C_line_length"] = 60
    add(("cli-vs-yaml", "override"), e, d, (), ["--language", "c", "--option", "debug=true", "--option", "C_line_length=60"])
    # an option section absent from the YAML altogether
    d = copy.deepcopy(cli_base)
    d2 = copy.deepcopy(cli_base)
    del d2["options"]
    add(("cli-vs-yaml", "no-options-section"), d, d2, (), ["--option", "wrap_python=true", "--option", "wrap_lua=true"])
    # (4)
    blk = yaml.safe_load(BLOCK_BASE)
    decls = blk["declarations"]
    for groups in compositions(len(decls)):
        if all(len(g) == 1 for g in groups):
            continue
        for wrap_single in ((False, True) if not quick else (False,)):
            d = copy.deepcopy(blk)
            new = []
            for g in groups:
                if len(g) == 1 and not wrap_single:
                    new.append(copy.deepcopy(decls[g[0]]))
                else:
                    new.append({"block": True, "declarations": [copy.deepcopy(decls[i]) for i in g]})
            d["declarations"] = new
            add(("blocks", str(groups), wrap_single), blk, d)
    cblk = yaml.safe_load(BLOCK_CLASS_BASE)
    members = cblk["declarations"][0]["declarations"]
    for groups in compositions(len(members)):
        if all(len(g) == 1 for g in groups):
            continue
        if quick and len(groups) not in (1, 2, len(members) - 1):
            continue
        d = copy.deepcopy(cblk)
        d["declarations"][0]["declarations"] = [copy.deepcopy(members[g[0]]) if len(g) == 1 else
                                                {"block": True, "declarations": [copy.deepcopy(members[i]) for i in g]} for g in groups]
        add(("blocks", "class members " + str(groups), False), cblk, d)
    # nested empty blocks
    d = copy.deepcopy(blk)
    d["declarations"] = [{"block": True, "declarations": [{"block": True, "declarations": copy.deepcopy(decls)}]}]
    add(("blocks", "nested", True), blk, d)
    ctx.rng.shuffle(jobs)
    res = isolate.pmap(compare_case, jobs, W)
    from . import c07 as _c07
    cw_targets = (BASE, CLI_BASE, BLOCK_BASE, BASE_C, WRAP_BASE, TEMPLATE_BASE, libs.SMALL_C, libs.OTHER_CXX, _c07.TYPEMAP_LIB)
    res += isolate.pmap(create_wrapper_case, [(os.path.join(wd, "cw%d" % i), t) for i, t in enumerate(cw_targets)], W)
    res += isolate.pmap(create_wrapper_case, [(os.path.join(wd, "cwe%d_%d" % (i, j)), t, e) for i, t in enumerate(cw_targets)
                                              for j, e in enumerate((EARLIER_TUT, libs.SMALL_CXX, libs.SMALL_C))], W)
    parts = {}
    rejected = []
    for label, st, info in res:
        kind = label[0] if isinstance(label, tuple) else label
        parts[kind] = parts.get(kind, 0) + 1
        ctx.outcome("%s %s" % (kind, st))
        if st == "both-rejected":
            rejected.append((label, info))
        if st == "bad":
            if kind == "placement":
                key = "placement %s.%s@%s" % (label[1], label[2], label[3])
                what = "%s %s on the %s differs from setting it on every function inside:\n%s" % (label[1], label[2], label[3], info)
            elif kind == "attribute":
                key = "attribute %s" % label[2]
                what = "inline %r differs from attrs/fattrs:\n%s" % (label[2], info)
            elif kind == "cli-vs-yaml":
                key = "cli-vs-yaml %s" % label[1]
                what = "options split %s (1 = on the command line, order %s) differs from all-YAML:\n%s" % (label[1], [o[1] for o in OPTSET], info)
            elif kind == "wrap-placement":
                key = "wrap-placement %s@%s" % (label[1], label[2])
                what = "%s switched on for the %s differs from switching it on for every function inside:\n%s" % (label[1], label[2], info)
            elif kind == "template-sibling":
                key = "template-sibling %s" % label[1]
                what = "option %s on the <int> instantiation of a class template changes the files of the <double> instantiation:\n%s" % (label[1], info)
            elif kind == "template-each":
                key = "template-each %s" % label[1]
                what = "option %s on every instantiation differs from the same option on the class template:\n%s" % (label[1], info)
            elif kind == "enum-placement":
                key = "enum-placement %s=%s@%s" % label[1:4]
                what = "option %s=%s on the enum declaration (%s scope) differs from the same option on a block holding only that enum:\n%s" % (label[1:4] + (info,))
            elif kind == "enum-setting-acts":
                key = "enum-setting-acts %s=%s@%s" % label[1:4]
                what = ("option %s=%s on the %s: %s" % (label[1], label[2], label[3][len("arank-"):], info)) if str(label[3]).startswith("arank-") else (
                    "option %s=%s on the declaration (%s scope): %s" % (label[1:4] + (info,)))
            elif kind == "blocks":
                key = "blocks %s" % label[1]
                what = "grouping %s into empty blocks changes the output:\n%s" % (label[1], info)
            else:
                key = "create_wrapper"
                what = info
            ctx.violation(key, what, {"kind": kind, "label": label})
    ctx.count(states=len(res), transitions=2 * len(res), validated=len(res))
    ctx.nontrivial_n(len(res))
    ctx.part("relations", **parts)
    for label, info in rejected:
        # every description of the alphabet is one shroud accepts: a pair it rejects twice decides nothing
        ctx.violation("undecided %s" % (label,), "both descriptions of the pair %s are rejected (%s): the relation could not be compared" % (label, info), {"label": label})
    ctx.part("placement", settings=len(settings), containers=list(CONTAINERS))
    ctx.sample({"relation": "placement", "setting": "options.F_force_wrapper=true", "container": "class"})
    ctx.sample({"relation": "attribute", "inline": ATTR_CASES[5][1], "attrs": ATTR_CASES[5][3]})
    ctx.cov["rule"] = ("each case is a pair of descriptions that the documentation calls equivalent; both are generated by the real "
                      "shroud and the complete output directories compared; states = pairs, transitions = generations")
    ctx.assumptions += ["the list of function-scoped settings was vetted by reading which emitter reads go through the function's own scope",
                        "debug/doxygen/literalinclude placement compared after comment stripping (a container's own header follows the container's value)"]


def replay(ctx, path):
    with open(path) as fp:
        p = json.load(fp)["payload"]
    print("re-run the check; payload:", p)
    ctx.count(states=1, transitions=1)
