"""C15 - wrapper selection is honoured and the file lists match what was written.

Exhaustive over: all library-level wrap_c/fortran/python/lua combinations (Fortran only with C)
on three descriptions; per-declaration overrides (three functions x {inherit, on, off}) for one
language at a time under both library defaults; all 3^5 assignments of the five output
directory options.  Oracles: file kinds written, byte invariance of C/Fortran files under
Python/Lua toggles, --cfiles/--ffiles == files written, every file in its designated
directory, a declaration appears in a language's output iff its flag is on.
"""
from __future__ import annotations

import copy
import itertools
import json
import os
import re
import shutil

import yaml

from .. import gen, isolate, libs

FUNCS = """\
library: Sel
cxx_header: sel.hpp
declarations:
- decl: int alphaone(int a)
- decl: void betatwo(const std::string &s)
- decl: double gammathree(double *v +rank(1), int n +implied(size(v)))
- decl: bool deltafour(bool flag)
"""
FUNCS_NS = """\
library: Sel
cxx_header: sel.hpp
declarations:
- decl: namespace nsx
  declarations:
  - decl: int alphaone(int a)
  - decl: void betatwo(const std::string &s)
  - decl: double gammathree(double *v +rank(1), int n +implied(size(v)))
  - decl: bool deltafour(bool flag)
"""
# overload sets in which single members are wrapped for some languages only: the automatic suffixes of the C and
# Fortran names must not depend on what Python or Lua see
OVERLOADS = """\
library: Sel
cxx_header: sel.hpp
declarations:
- decl: void scale(int a)
- decl: void scale(long a)
  options:
    wrap_c: false
    wrap_fortran: false
- decl: void scale(double a)
- decl: void shift(int a)
  options:
    wrap_python: false
    wrap_lua: false
- decl: void shift(double a)
- decl: void shift(const std::string &a)
  options:
    wrap_c: false
    wrap_fortran: false
    wrap_lua: false
- decl: int twice(int a = 1, int b = 2)
"""
FUNCS_NS2 = """\
library: Sel
cxx_header: sel.hpp
declarations:
- decl: namespace outer
  declarations:
  - decl: namespace nsx
    declarations:
    - decl: int alphaone(int a)
    - decl: void betatwo(const std::string &s)
    - decl: double gammathree(double *v +rank(1), int n +implied(size(v)))
    - decl: bool deltafour(bool flag)
"""
# a method whose wrapper is derived from the declaration (return_this makes a void clone): the clone follows the flags
CHAIN = """\
library: Sel
cxx_header: sel.hpp
declarations:
- decl: class Builder
  declarations:
  - decl: Builder()
  - decl: Builder * setSize(int n)
    return_this: True
  - decl: Builder & setName(const std::string &name)
    return_this: True
  - decl: int size() const
  - decl: int m_count +readonly
  - decl: double m_scale
- decl: void apply(int n = 1, int m = 2)
"""
# classes as the declarations that carry the override: the flag on a class governs the class and everything in it
FUNCS_CLS = """\
library: Sel
cxx_header: sel.hpp
declarations:
- decl: class alphaone
  declarations:
  - decl: alphaone()
  - decl: int poke(int a)
- decl: class betatwo
  declarations:
  - decl: betatwo()
  - decl: void rename(const std::string &s)
- decl: class gammathree
  declarations:
  - decl: gammathree()
  - decl: double sum(double *v +rank(1), int n +implied(size(v)))
- decl: class deltafour
  declarations:
  - decl: deltafour()
  - decl: bool flip(bool flag)
"""
# instantiations of a class template as the declarations that carry the override (options of a cxx_template entry)
FUNCS_TMPL = """\
library: Sel
cxx_header: sel.hpp
declarations:
- decl: template<typename T> class Box
  cxx_template:
  - instantiation: <int>
    format:
      template_suffix: _alphaone
  - instantiation: <long>
    format:
      template_suffix: _betatwo
  - instantiation: <double>
    format:
      template_suffix: _gammathree
  - instantiation: <float>
    format:
      template_suffix: _deltafour
  declarations:
  - decl: Box()
  - decl: T get()
"""
# enumerations as the declarations that carry the override
FUNCS_ENUM = """\
library: Sel
cxx_header: sel.hpp
declarations:
- decl: enum alphaone { ALPHAONE_A, ALPHAONE_B }
- decl: enum betatwo { BETATWO_A = 3 }
- decl: enum gammathree { GAMMATHREE_A, GAMMATHREE_B = 7 }
- decl: enum deltafour { DELTAFOUR_A }
- decl: int keep(int a)
"""
# instantiations of a function template as the declarations that carry the override
FUNCS_FTMPL = """\
library: Sel
cxx_header: sel.hpp
declarations:
- decl: template<typename T> void work(T v)
  cxx_template:
  - instantiation: <int>
    format:
      template_suffix: _alphaone
  - instantiation: <long>
    format:
      template_suffix: _betatwo
  - instantiation: <double>
    format:
      template_suffix: _gammathree
  - instantiation: <float>
    format:
      template_suffix: _deltafour
"""
# namespaces as the declarations that carry the override
FUNCS_NSV = """\
library: Sel
cxx_header: sel.hpp
declarations:
- decl: namespace nsalphaone
  declarations:
  - decl: int alphaone(int a)
- decl: namespace nsbetatwo
  declarations:
  - decl: void betatwo(const std::string &s)
- decl: namespace nsgammathree
  declarations:
  - decl: double gammathree(double *v +rank(1), int n +implied(size(v)))
- decl: namespace nsdeltafour
  declarations:
  - decl: bool deltafour(bool flag)
"""
# a struct Python sees as a class, with the debugging comments that print each function's index: what Python generates for
# itself must not renumber the C and Fortran wrappers
STRUCT_DEBUG = """\
library: Sel
language: c
cxx_header: sel.h
options:
  debug: true
  debug_index: true
  PY_struct_arg: class
  PY_array_arg: list
declarations:
- decl: int before(int a)
- decl: struct Point { int x; double y; };
- decl: double norm(const Point *p)
- decl: void after(const char *name)
"""
DESCS = {
    "functions": FUNCS,
    "structdebug": STRUCT_DEBUG,
    "chain": CHAIN,
    "overloads": OVERLOADS,
    "classes": libs.SMALL_CXX,
    "structs": libs.SMALL_C,
}
LANGS = ["c", "fortran", "python", "lua"]


def kind_of(fn):
    """Classify a written file by its name."""
    base = os.path.basename(fn)
    if base.endswith((".log", ".json")):
        return "log"
    if base.endswith("_types.yaml"):
        return "yaml"
    if base == "setup.py":
        return "setup"
    if base.startswith("py"):
        return "python"
    if base.startswith("lua"):
        return "lua"
    if base.endswith(".f"):
        return "fortran"
    if base.endswith((".h", ".hpp", ".c", ".cpp")):
        return "c"
    return "other"


def snapshot(root):
    out = {}
    for dp, dn, fnames in os.walk(root):
        for f in fnames:
            p = os.path.join(dp, f)
            st = os.stat(p)
            out[os.path.relpath(p, root)] = (st.st_mtime_ns, st.st_size)
    return out


def run_case(args):
    """Run shroud in a scratch tree with the given YAML and directory options."""
    workdir, ydict, dirs, want_lists = args
    os.makedirs(workdir)
    for d in set(v for v in dirs.values() if v):
        os.makedirs(os.path.join(workdir, d), exist_ok=True)
    os.makedirs(os.path.join(workdir, "logs"))
    with open(os.path.join(workdir, "lib.yaml"), "w") as fp:
        yaml.safe_dump(ydict, fp, default_flow_style=False, sort_keys=False)
    # pre-existing files that are not written in this run must not be listed
    for d in set(v for v in dirs.values() if v):
        with open(os.path.join(workdir, d, "wrapStale.c"), "w") as fp:
            fp.write("/* stale */\n")
    before = snapshot(workdir)
    argv = ["--logdir", "logs"]
    for opt, key in (("--outdir", "out"), ("--outdir-c-fortran", "cf"), ("--outdir-python", "py"),
                     ("--outdir-lua", "lua"), ("--outdir-yaml", "yaml")):
        if dirs.get(key):
            argv += [opt, dirs[key]]
    if want_lists:
        argv += ["--cfiles", "cfiles.txt", "--ffiles", "ffiles.txt"]
    r = isolate.shroud_cli(argv + ["lib.yaml"], cwd=workdir)
    res = {"status": r.status, "msg": (r.msg or "")[:300], "exc": r.exc}
    if r.status == "ok":
        after = snapshot(workdir)
        written = sorted(k for k in after if after[k] != before.get(k) and k not in ("cfiles.txt", "ffiles.txt"))
        res["written"] = written
        res["content"] = {}
        for k in written:
            if kind_of(k) in ("c", "fortran", "python", "lua"):
                with open(os.path.join(workdir, k), "rb") as fp:
                    res["content"][k] = fp.read().decode("utf-8", "replace")
        if want_lists:
            for nm in ("cfiles", "ffiles"):
                p = os.path.join(workdir, nm + ".txt")
                res[nm] = open(p).read().split() if os.path.exists(p) else None
    shutil.rmtree(workdir, ignore_errors=True)
    return res


def _two_runs(workdir, names):
    """child: the console entry point once per library, one after the other in this interpreter (a setup.py wrapping two libraries)"""
    import sys

    import shroud.main

    for nm in names:
        sys.argv = ["shroud", "--outdir", nm, "--logdir", nm, "--cfiles", nm + ".c.list", "--ffiles", nm + ".f.list", nm + ".yaml"]
        os.chdir(workdir)
        try:
            shroud.main.main()
        except SystemExit as e:  # the console entry point ends with sys.exit(0)
            if e.code not in (0, None):
                raise
    return "done"


def two_runs_case(args):
    """The file lists of a run name the files of that run, also when another library was processed before it in the same interpreter."""
    workdir, texts = args
    os.makedirs(workdir)
    names = sorted(texts)
    errs = []
    for order in (names, names[::-1]):
        for nm in names:
            shutil.rmtree(os.path.join(workdir, nm), ignore_errors=True)
            os.makedirs(os.path.join(workdir, nm))
            with open(os.path.join(workdir, nm + ".yaml"), "w") as fp:
                fp.write(texts[nm])
        r = isolate.call_in_child(_two_runs, (workdir, order), timeout=120)
        if r.status != "ok":
            errs.append("two runs %s in one interpreter fail: %s %s" % (order, r.exc, (r.msg or "")[:200]))
            continue
        for nm in order:
            files = sorted(os.listdir(os.path.join(workdir, nm)))
            for lst, kind in (("c.list", "c"), ("f.list", "fortran")):
                want = sorted(f for f in files if kind_of(f) == kind)
                listed = open(os.path.join(workdir, nm + "." + lst)).read().split()
                got = sorted(os.path.basename(x) for x in listed)
                foreign = sorted(x for x in listed if os.path.basename(os.path.dirname(x)) not in (nm, ""))
                if got != want or foreign:
                    errs.append("order %s: %s/%s lists %s%s, %s files written for %s: %s" % (order, nm, lst, got, " (of another run: %s)" % foreign if foreign else "", kind, nm, want))
    shutil.rmtree(workdir, ignore_errors=True)
    return errs


def expected_dir(kind, dirs):
    spec = {"c": "cf", "fortran": "cf", "python": "py", "lua": "lua", "yaml": "yaml"}.get(kind)
    if spec and dirs.get(spec):
        return dirs[spec]
    return dirs.get("out") or ""


def norm(p):
    return os.path.normpath(p) if p else "."


def appears(name, lang, content):
    """Does the declaration show up in the output of the language?"""
    pat = re.compile(r"(?<![A-Za-z0-9])%s(?![A-Za-z0-9])" % re.escape(name), re.I if lang == "fortran" else 0)
    if lang == "fortran":
        # the Fortran API name itself; c_<name> is the bind(C) interface of the C wrapper (wrap_c's footprint)
        rx = re.compile(r"(?<![A-Za-z0-9_])%s(?![A-Za-z0-9_])" % re.escape(name), re.I)
    else:
        rx = re.compile(r"(?<![A-Za-z0-9])[A-Za-z0-9_]*%s[A-Za-z0-9_]*" % re.escape(name), re.I)
    for fn, text in content.items():
        if kind_of(fn) != lang:
            continue
        for ln in text.split("\n"):
            s = ln.strip()
            if s.startswith(("//", "!", "/*", "*")):
                continue
            if rx.search(ln):
                return True
    return False


def corpus_toggle_case(args):
    """One upstream corpus configuration generated with the Python / Lua wrappers forced on and forced off."""
    workdir, repo, cfg = args
    from .. import corpus
    trees = {}
    for tag, extra in (("on", ["--option", "wrap_python=true", "--option", "wrap_lua=true"]), ("off", ["--option", "wrap_python=false", "--option", "wrap_lua=false"]),
                       ("py", ["--option", "wrap_python=true", "--option", "wrap_lua=false"])):
        out = os.path.join(workdir, tag, "out")
        r = corpus.generate(repo, cfg, out, extra)
        if r.status != "ok":
            trees[tag] = None
            continue
        t = isolate.read_tree(out)
        trees[tag] = {k: v for k, v in t.items() if kind_of(k) in ("c", "fortran")}
    shutil.rmtree(workdir, ignore_errors=True)
    return cfg[0], trees


def run(ctx):
    quick = ctx.tier == "quick"
    W = ctx.workers
    wd = ctx.subdir("w")
    jobs = []
    meta = []

    def add(tag, ydict, dirs=None, lists=True):
        jobs.append((os.path.join(wd, "j%d" % len(jobs)), ydict, dirs or {"out": "out"}, lists))
        meta.append(tag)

    # ---- (a) library-level combinations
    combos = [c for c in itertools.product([True, False], repeat=4) if (not c[1]) or c[0]]
    for dname, text in DESCS.items():
        base = yaml.safe_load(text)
        for c in combos:
            d = copy.deepcopy(base)
            opts = d.setdefault("options", {})
            for lang, on in zip(LANGS, c):
                opts["wrap_" + lang] = on
            if dname in ("structs", "structdebug") and c[3]:
                continue  # Lua wrapping of structs is not in the supported subset
            add(("lib", dname, c), d, {"out": "out", "cf": "cfdir", "py": "pydir", "lua": "luadir", "yaml": "yamldir"})
    # ---- (b) per-declaration overrides
    names = ["alphaone", "betatwo", "gammathree"]
    for lang in LANGS:
        for libdefault, nested in ((True, False), (False, False), (False, True), (True, True), (False, 2), (True, 2), (True, "flat"), (False, "flat"), (True, "flat2"), (True, "class"), (False, "class"), (True, "nsv"), (False, "nsv"), (True, "tmpl"), (False, "tmpl"), (True, "enum"), (False, "enum"), (True, "ftmpl"), (False, "ftmpl")):
            allflags = list(itertools.product(["inherit", True, False], repeat=3))
            if nested and quick:
                allflags = allflags[::3]
            for flags in allflags:
                if nested in ("enum", "ftmpl") and lang == "lua":
                    continue  # the Lua wrapper has no enumerations and no function templates
                if nested in ("class", "nsv", "tmpl", "enum", "ftmpl"):
                    d = copy.deepcopy(yaml.safe_load({"class": FUNCS_CLS, "nsv": FUNCS_NSV, "tmpl": FUNCS_TMPL, "enum": FUNCS_ENUM, "ftmpl": FUNCS_FTMPL}[nested]))
                    opts = d.setdefault("options", {})
                    for l2 in LANGS:
                        opts["wrap_" + l2] = True
                    opts["wrap_" + lang] = libdefault
                    if lang == "c":
                        opts["wrap_fortran"] = False
                    for fdecl, fl in zip(d["declarations"] if nested not in ("tmpl", "ftmpl") else d["declarations"][0]["cxx_template"], flags):
                        if fl != "inherit":
                            fdecl.setdefault("options", {})["wrap_" + lang] = fl
                    add(("decl", lang, libdefault, flags, nested if nested in ("tmpl", "enum", "ftmpl") else False), d)
                    continue
                flat = nested in ("flat", "flat2")
                if flat:
                    # the namespace folded into the parent Fortran module by an option on the namespace itself
                    nested = 2 if nested == "flat2" else True
                d = copy.deepcopy(yaml.safe_load(FUNCS_NS2 if nested == 2 else FUNCS_NS if nested else FUNCS))
                if flat:
                    (d["declarations"][0]["declarations"][0] if nested == 2 else d["declarations"][0]).setdefault("options", {})["F_flatten_namespace"] = True
                opts = d.setdefault("options", {})
                for l2 in LANGS:
                    opts["wrap_" + l2] = True
                opts["wrap_" + lang] = libdefault
                if lang == "c":
                    opts["wrap_fortran"] = False  # Fortran only together with C
                if lang == "fortran" and not libdefault:
                    pass
                fl_decls = d["declarations"][0]["declarations"][0]["declarations"] if nested == 2 else d["declarations"][0]["declarations"] if nested else d["declarations"]
                for fdecl, fl in zip(fl_decls, flags):
                    if fl != "inherit":
                        fdecl.setdefault("options", {})["wrap_" + lang] = fl
                add(("decl", lang, libdefault, flags, flat), d)
    # ---- (b2) the override on the block: that groups the declarations: a block in a block in a block, options on the outer
    # one, on the middle one, on the declaration in the innermost one; each declaration follows the nearest enclosing setting
    for lang in LANGS:
        for libdefault in (True, False):
            for inns in ((False,) if quick else (False, True)):
                for flags in itertools.product(["inherit", True, False], repeat=3):
                    fo, fi, fg = flags
                    fns = [dict(d) for d in yaml.safe_load(FUNCS)["declarations"]]
                    if fg != "inherit":
                        fns[2]["options"] = {"wrap_" + lang: fg}
                    innermost = dict(block=True, declarations=[fns[2]])
                    inner = dict(block=True, declarations=[fns[1], innermost])
                    if fi != "inherit":
                        inner["options"] = {"wrap_" + lang: fi}
                    outer = dict(block=True, declarations=[fns[0], inner])
                    if fo != "inherit":
                        outer["options"] = {"wrap_" + lang: fo}
                    decls = [outer, fns[3]]
                    if inns:
                        decls = [dict(decl="namespace nsx", declarations=decls)]
                    opts = {"wrap_" + l2: True for l2 in LANGS}
                    opts["wrap_" + lang] = libdefault
                    if lang == "c":
                        opts["wrap_fortran"] = False
                    add(("blk", lang, libdefault, flags, inns), dict(library="Sel", cxx_header="sel.hpp", options=opts, declarations=decls))
    # ---- (c) directory assignments
    dbase = yaml.safe_load(libs.SMALL_CXX)
    keys = ["out", "cf", "py", "lua", "yaml"]
    assigns = list(itertools.product([None, "A", "B"], repeat=5))
    if quick:
        # all assignments in which at most three of the five options are set (131 of 243) + the full ones
        assigns = [a for a in assigns if sum(1 for x in a if x) <= 2 or all(a)]
    for a in assigns:
        add(("dirs", a), dbase, dict(zip(keys, a)))
    res = isolate.pmap(run_case, jobs, W, chunksize=2)

    # ---- oracles
    cf_by = {}
    for tag, r, job in zip(meta, res, jobs):
        ctx.outcome("%s %s" % (tag[0], r["status"]))
        dirs = job[2]
        if r["status"] != "ok":
            ctx.violation("%s failed %s" % (tag[0], (tag[1:],)), "shroud failed for %s: %s %s" % (tag, r["exc"], r["msg"]), {"tag": tag})
            continue
        written = r["written"]
        kinds = {}
        for f in written:
            kinds.setdefault(kind_of(f), []).append(f)
        # every file in the directory designated for its kind
        for f in written:
            k = kind_of(f)
            if k in ("log", "other", "setup"):
                if k == "other":
                    ctx.violation("unknown file %s" % os.path.basename(f), "unexpected file written: %s (%s)" % (f, tag), {"tag": tag})
                continue
            want = norm(expected_dir(k, dirs))
            got = norm(os.path.dirname(f))
            if got != want:
                ctx.violation("directory %s-file" % k, "%s file %s written to %r, designated directory is %r (options %s)" % (
                    k, os.path.basename(f), got, want, {kk: v for kk, v in dirs.items() if v}), {"tag": tag})
        # file lists
        if "cfiles" in r:
            wc = sorted(norm(f) for f in kinds.get("c", []))
            wf = sorted(norm(f) for f in kinds.get("fortran", []))
            lc = sorted(norm(f) for f in (r["cfiles"] or []))
            lf = sorted(norm(f) for f in (r["ffiles"] or []))
            if r["cfiles"] is None or lc != wc:
                ctx.violation("cfiles", "--cfiles lists %s, C/C++ files written in this run: %s (%s)" % (lc, wc, tag), {"tag": tag})
            if r["ffiles"] is None or lf != wf:
                ctx.violation("ffiles", "--ffiles lists %s, Fortran files written in this run: %s (%s)" % (lf, wf, tag), {"tag": tag})
        if tag[0] == "lib":
            _, dname, c = tag
            for lang, on in zip(LANGS, c):
                has = bool(kinds.get(lang))
                if not on and has:
                    ctx.violation("off-language-writes %s" % lang, "%s: wrap_%s is off for the library but %s was written (%s)" % (
                        dname, lang, kinds[lang], dict(zip(LANGS, c))), {"tag": tag})
                if on and not has:
                    ctx.violation("on-language-silent %s %s" % (lang, dname), "%s: wrap_%s is on but no %s file was written (%s)" % (
                        dname, lang, lang, dict(zip(LANGS, c))), {"tag": tag})
            cf = {k: v for k, v in r["content"].items() if kind_of(k) in ("c", "fortran")}
            key = (dname, c[0], c[1])
            if key in cf_by:
                c0, ref = cf_by[key]
                if ref != cf:
                    t0 = {k: v.encode() for k, v in ref.items()}
                    t1 = {k: v.encode() for k, v in cf.items()}
                    ctx.violation("cf-changes-with-py-lua %s" % dname, "%s: C/Fortran files differ between %s and %s:\n%s" % (
                        dname, dict(zip(LANGS, c0)), dict(zip(LANGS, c)), "\n".join(isolate.diff_trees(t0, t1, 2))), {"tag": tag})
            else:
                cf_by[key] = (c, cf)
        elif tag[0] == "decl":
            _, lang, libdefault, flags, flat = tag
            # in a flattened namespace the Fortran name carries the namespace
            fname = ((lambda n: "box_" + n) if (flat == "tmpl" and lang == "fortran") else (lambda n: n + "_a") if (flat == "enum" and lang == "fortran") else
                     (lambda n: "work_" + n) if (flat == "ftmpl" and lang == "fortran") else (lambda n: "nsx_" + n) if (flat and lang == "fortran") else (lambda n: n))
            for nm, fl in zip(names, flags):
                on = libdefault if fl == "inherit" else fl
                seen = appears(fname(nm), lang, r["content"])
                if on != seen:
                    ctx.violation("decl-flag %s %s" % (lang, "missing" if on else "present"),
                                  "wrap_%s for %s is %s (library default %s, flags %s) but the function %s in the %s output" % (
                                      lang, nm, on, libdefault, dict(zip(names, flags)), "appears" if seen else "does not appear", lang), {"tag": tag})
            # the untouched fourth function follows the library default
            seen = appears(fname("deltafour"), lang, r["content"])
            if seen != libdefault:
                ctx.violation("decl-flag sibling %s" % lang, "sibling deltafour (no override, library default %s) %s in the %s output; flags %s" % (
                    libdefault, "appears" if seen else "does not appear", lang, dict(zip(names, flags))), {"tag": tag})
        elif tag[0] == "blk":
            _, lang, libdefault, (fo, fi, fg), inns = tag
            first = lambda *v: next(x for x in v if x != "inherit")
            want = {"alphaone": first(fo, libdefault), "betatwo": first(fi, fo, libdefault), "gammathree": first(fg, fi, fo, libdefault), "deltafour": libdefault}
            for nm, on in want.items():
                seen = appears(nm, lang, r["content"])
                if on != seen:
                    ctx.violation("block-flag %s %s" % (lang, "missing" if on else "present"),
                                  "wrap_%s for %s is %s (library default %s; outer block %s, inner block %s, declaration gammathree %s%s) but the function %s in the %s output" % (
                                      lang, nm, on, libdefault, fo, fi, fg, "; in a namespace" if inns else "", "appears" if seen else "does not appear", lang), {"tag": tag})
    # ---- (d) the upstream corpus: C and Fortran files must not change with the Python / Lua wrappers
    from .. import corpus
    ccfgs = corpus.configs(ctx.repo)
    if quick:
        ccfgs = ccfgs[::3]
    cres = isolate.pmap(corpus_toggle_case, [(os.path.join(wd, "corp%d" % i), ctx.repo, c) for i, c in enumerate(ccfgs)], W)
    ncmp = 0
    for name, trees in cres:
        ok = [t for t in trees if trees[t] is not None]
        for a, b in itertools.combinations(ok, 2):
            ncmp += 1
            if trees[a] != trees[b]:
                ctx.violation("corpus cf-changes-with-py-lua %s" % name, "corpus configuration %s: C/Fortran files differ between Python/Lua wrappers %s and %s:\n%s" % (
                    name, a, b, "\n".join(isolate.diff_trees(trees[a], trees[b], 2))), {"kind": "corpus", "config": name})
                break
    ctx.part("corpus_toggles", configurations=len(cres), comparisons=ncmp)
    ctx.count(states=len(res) + len(cres), transitions=len(res) + ncmp, validated=len(res) + ncmp)
    ctx.nontrivial_n(len(res) + len(cres))
    from .. import libs as _libs
    terrs = two_runs_case((os.path.join(ctx.subdir("two"), "t"), {"alpha": _libs.SMALL_C, "beta": _libs.OTHER_CXX}))
    ctx.count(states=2, transitions=4, validated=4)
    for e in terrs:
        ctx.violation("lists two-runs", e, {"tag": "two-runs"})
    ctx.part("two_runs_in_one_interpreter", libraries=2, orders=2)
    ctx.part("library_combinations", runs=sum(1 for t in meta if t[0] == "lib"), descriptions=list(DESCS))
    ctx.part("declaration_overrides", runs=sum(1 for t in meta if t[0] == "decl"))
    ctx.part("block_overrides", runs=sum(1 for t in meta if t[0] == "blk"), nesting=3)
    ctx.part("directory_assignments", runs=sum(1 for t in meta if t[0] == "dirs"), of=243)
    ctx.sample({"library_flags": dict(zip(LANGS, combos[3])), "description": "classes"})
    ctx.sample({"override": {"language": "python", "library_default": False, "flags": ["inherit", True, False]}})
    ctx.sample({"directories": dict(zip(keys, assigns[17]))})
    ctx.cov["rule"] = ("every admissible wrap-flag combination x description, every per-declaration override vector per language and "
                      "library default, every directory assignment; each a real shroud run whose written files (directory snapshot "
                      "before/after), file lists and contents are checked")
    ctx.assumptions += ["file kinds are recognised by name (py*, lua*, *.f, wrap*/types*/util* C files, *_types.yaml, setup.py)",
                        "setup.py may be written to the general output directory"]


def replay(ctx, path):
    with open(path) as fp:
        p = json.load(fp)["payload"]
    print("re-run the check; payload:", p)
    ctx.count(states=1, transitions=1)
