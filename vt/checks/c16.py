"""C16 - documentation and debug options change comments only.

All 32 subsets of {debug, doxygen, show_splicer_comments, version stamping, literalinclude on
declarations}, set globally and (for the function-scoped ones) on single declarations, on the
small libraries, and on the corpus; oracle: same set of files and identical comment-stripped
text of every C/C++/Fortran/Python-extension/Lua file.
"""
from __future__ import annotations

import copy
import itertools
import json
import os

import yaml

from .. import corpus, gen, isolate, libs
from .c14 import functions_under

DOCLIB = """\
library: Doc
cxx_header: doc.hpp
options:
  wrap_python: true
  wrap_lua: true
declarations:
- decl: struct Pt { int x; double y; };
- decl: int plain(int a)
  doxygen:
    brief: A plain function
    description: |
      Longer text about the function
      on two lines.
    return: the value
- decl: const std::string &name(const std::string &who)
  doxygen:
    brief: name things
    description: "two lines of text\\nwithout a newline at the end"
- decl: void over(int a)
  doxygen:
    brief: |
      a brief of two lines,
      this is the second
    return: |
      nothing, said
      on two lines
- decl: void over(double a)
  doxygen:
    brief: "two lines of brief\nwithout a newline at the end"
- decl: double dflt(double a = 1.5, bool b = true)
  doxygen:
    brief: with defaults
- decl: void arr(int *v +rank(1), int n +implied(size(v)))
- decl: void report(int comm)
  cpp_if: ifdef HAVE_COMM
  doxygen:
    brief: report with a communicator
- decl: void report()
  cpp_if: ifndef HAVE_COMM
  doxygen:
    brief: report without one
    description: |
      Only one of the two is compiled.
# user statements that give a void function a result in the C wrapper (cstatements.rst, return_type)
- decl: void countUp(int n)
  fstatements:
    c:
      return_type: long
      ret:
      - return (long) n;
- decl: void nameLen(const std::string &s)
  fstatements:
    c_buf:
      return_type: int
      ret:
      - return (int) SHCXX_s.size();
- decl: void gen(double v)
  fortran_generic:
  - decl: (float v)
  - decl: (double v)
- decl: int apply(int n, int (*fn)(int))
- decl: int apply(double x, int (*fn)(int value))
- decl: void visit(void (*fn)(double *v +rank(1), int n))
- decl: void logValue(const std::string &name, double value)
  fortran_generic:
  - decl: (float value)
  - decl: (double value)
- decl: enum Kind { ONE, TWO = 4 }
- decl: class Obj
  doxygen:
    brief: a class
  declarations:
  - decl: Obj()
    doxygen:
      brief: constructor
  - decl: ~Obj()
  - decl: int value() const
    doxygen:
      brief: get value
  - decl: void fill(std::vector<double> &v +intent(out))
  - decl: int m_count +readonly
- decl: "class Derived : public Obj"
  doxygen:
    brief: a derived class
  declarations:
  - decl: Derived()
  - decl: int extra(int a)
- decl: class Guarded
  cpp_if: ifdef HAVE_GUARDED
  declarations:
  - decl: Guarded()
  - decl: int level(int a)
    cpp_if: ifdef HAVE_LEVEL
- decl: namespace inner
  declarations:
  - decl: int twice(int value)
# user code in splicer blocks of every language: it is code, so it stays whatever the comment options say
splicer_code:
  f:
    file_top:
    - "#define USER_FILE_TOP 1"
    module_top:
    - "integer, parameter :: user_module_top = 1"
    function:
      arr:
      - user_arr_body = 1
    class:
      Obj:
        method:
          value:
          - user_value_body = 2
    namespace:
      inner:
        file_top:
        - "#define USER_INNER_TOP 1"
        module_top:
        - "integer, parameter :: user_inner_top = 1"
  c:
    CXX_definitions:
    - static int user_c_definition = 1;
    function:
      plain:
      - return 42;
  py:
    C_definition:
    - static int user_py_definition = 1;
  lua:
    C_definition:
    - static int user_lua_definition = 1;
"""
OPTS = ["debug", "doxygen", "show_splicer_comments", "write_version", "literalinclude"]
DEFAULTS = {"debug": False, "doxygen": True, "show_splicer_comments": True, "write_version": True, "literalinclude": False}


def apply(desc, subset, mode):
    """subset: set of options that are flipped away from their default.
    mode 'global': options in the library's options (literalinclude on every declaration);
    mode 'decl': debug/doxygen/literalinclude on every single function declaration instead."""
    d = copy.deepcopy(desc)
    argv = []
    opts = d.setdefault("options", {})
    for o in OPTS:
        val = (not DEFAULTS[o]) if o in subset else DEFAULTS[o]
        if o == "write_version":
            argv.append("--write-version" if val else "--nowrite-version")
        elif o == "literalinclude":
            if val:
                for f in functions_under(d) + classes_under(d):
                    f.setdefault("options", {})["literalinclude"] = True
        elif o == "show_splicer_comments" or mode == "global":
            opts[o] = val
        else:
            for f in functions_under(d):
                f.setdefault("options", {})[o] = val
    return d, argv


def classes_under(node):
    out = []
    for d in node.get("declarations", []):
        # every declaration other than a function that takes options: classes, structs (with or without a member list
        # of their own), enumerations, namespaces
        if "decl" in d and d["decl"].strip().startswith(("class ", "struct ", "enum ", "namespace ")):
            out.append(d)
        if "declarations" in d:
            out += classes_under(d)
    return out


def strip(tree):
    out = {}
    for k, v in tree.items():
        if k.endswith((".yaml",)):
            continue
        out[k] = gen.strip_comments(k, v).encode()
    return out


def case(args):
    workdir, desc, argv = args
    r, tree = gen.gen_tree(workdir, desc, argv)
    if r.status != "ok":
        return ("fail", "%s %s: %s" % (r.status, r.exc, (r.msg or "")[:200]))
    return ("ok", strip(tree))


def corpus_case(args):
    workdir, repo, cfg, extra = args
    out = os.path.join(workdir, "out")
    r = corpus.generate(repo, cfg, out, extra)
    if r.status != "ok":
        import shutil
        shutil.rmtree(workdir, ignore_errors=True)
        return ("fail", "%s %s: %s" % (r.status, r.exc, (r.msg or "")[:200]))
    tree = isolate.read_tree(out)
    tree.pop("output", None)
    import shutil
    shutil.rmtree(workdir, ignore_errors=True)
    return ("ok", strip(tree))


def run(ctx):
    quick = ctx.tier == "quick"
    W = ctx.workers
    wd = ctx.subdir("w")
    descs = {"doc": yaml.safe_load(DOCLIB), "small": yaml.safe_load(libs.SMALL_CXX), "csmall": yaml.safe_load(libs.SMALL_C)}
    if not quick:
        descs["other"] = yaml.safe_load(libs.OTHER_CXX)
    subsets = [frozenset(s) for n in range(len(OPTS) + 1) for s in itertools.combinations(OPTS, n)]
    jobs, meta = [], []
    for dn, desc in descs.items():
        for mode in ("global", "decl"):
            for s in subsets:
                if mode == "decl" and not (s & {"debug", "doxygen"}):
                    continue  # identical to the global variant
                d, argv = apply(desc, s, mode)
                jobs.append((os.path.join(wd, "j%d" % len(jobs)), d, argv))
                meta.append((dn, mode, s))
    # one declaration at a time: the declaration-scoped options flipped on a single function
    for dn, desc in descs.items():
        nf = len(functions_under(desc)) + len(classes_under(desc))
        for i in range(nf):
            for s in ([frozenset(["literalinclude"]), frozenset(["debug", "doxygen", "literalinclude"])] if not quick or dn == "doc" else [frozenset(["debug", "doxygen", "literalinclude"])]):
                d = copy.deepcopy(desc)
                f = (functions_under(d) + classes_under(d))[i]
                for o in s:
                    f.setdefault("options", {})[o] = not DEFAULTS[o]
                jobs.append((os.path.join(wd, "j%d" % len(jobs)), d, ["--write-version"]))
                meta.append((dn, "one#%d" % i, s))
    res = isolate.pmap(case, jobs, W)
    ref = {}
    for (dn, mode, s), (st, tree) in zip(meta, res):
        if (dn, mode, s) == (dn, "global", frozenset()):
            ref[dn] = tree
    for (dn, mode, s), (st, tree) in zip(meta, res):
        ctx.outcome("%s %s" % (mode, st))
        label = "%s %s {%s}" % (dn, mode, ",".join(sorted(s)))
        if mode.startswith("one#"):
            mode = "one"
        if st != "ok":
            ctx.violation("failed %s" % label, "generation failed with options {%s} set %s: %s" % (",".join(sorted(s)), mode, tree), {"label": label})
            continue
        base = ref[dn]
        if set(tree) != set(base):
            ctx.violation("fileset %s %s" % (mode, "+".join(sorted(s))), "%s: set of files changes: %s" % (label, sorted(set(tree) ^ set(base))), {"label": label})
        elif tree != base:
            ctx.violation("code-changes %s %s" % (mode, "+".join(sorted(s))), "%s: code differs after comment stripping:\n%s" % (
                label, "\n".join(isolate.diff_trees(base, tree, 2))), {"label": label})
    n1 = len(res)
    ctx.part("small_libraries", runs=n1, descriptions=list(descs), subsets=len(subsets))
    # ---- corpus: each of the global options flipped, one at a time and all together
    cfgs = corpus.configs(ctx.repo)
    if quick:
        cfgs = [c for c in cfgs if c[0] in ("tutorial", "classes", "strings", "vectors", "struct-c", "templates", "ownership", "pointers-cxx", "generic", "enum-cxx")]
    variants = [(), ("--option", "debug=true"), ("--option", "doxygen=false"), ("--option", "show_splicer_comments=false"),
                ("--option", "debug=true", "--option", "doxygen=false", "--option", "show_splicer_comments=false")]
    cjobs, cmeta = [], []
    for cfg in cfgs:
        for vi, v in enumerate(variants):
            # the corpus YAML may itself set debug: the command line value replaces it, that is the point
            cjobs.append((os.path.join(wd, "c%d" % len(cjobs)), ctx.repo, cfg, list(v)))
            cmeta.append((cfg[0], vi))
    cres = isolate.pmap(corpus_case, cjobs, W)
    cref = {}
    for (name, vi), (st, tree) in zip(cmeta, cres):
        if vi == 0:
            cref[name] = (st, tree)
    for (name, vi), (st, tree) in zip(cmeta, cres):
        ctx.outcome("corpus %s" % st)
        if cref[name][0] != "ok":
            continue
        if st != "ok":
            ctx.violation("corpus failed %s v%d" % (name, vi), "%s with %s: %s" % (name, variants[vi], tree), {"config": name})
            continue
        base = cref[name][1]
        if set(tree) != set(base):
            ctx.violation("corpus fileset %s" % " ".join(variants[vi]), "%s: set of files changes with %s: %s" % (name, variants[vi], sorted(set(tree) ^ set(base))), {"config": name})
        elif tree != base:
            ctx.violation("corpus code-changes %s" % " ".join(variants[vi]), "%s: code differs with %s after comment stripping:\n%s" % (
                name, variants[vi], "\n".join(isolate.diff_trees(base, tree, 2))), {"config": name})
    ctx.count(states=n1 + len(cres), transitions=n1 + len(cres), validated=n1 + len(cres))
    ctx.nontrivial_n(n1 + len(cres))
    ctx.part("corpus", runs=len(cres), configurations=len(cfgs), variants=len(variants))
    ctx.sample({"description": "doc", "mode": "decl", "flipped": ["debug", "literalinclude"]})
    ctx.sample({"corpus": cfgs[0][0], "extra": list(variants[4])})
    ctx.cov["rule"] = ("every subset of the five options flipped from its default, globally and per declaration, on each description; "
                      "each output is comment-stripped (//, /* */, Fortran ! outside character literals, blank lines) and compared with "
                      "the all-default output; corpus: each global option and all together")
    ctx.assumptions += ["the *_types.yaml file (a comment header plus data) is not a language source and is not compared",
                        "library-level literalinclude/literalinclude2 excluded as the property states; literalinclude is set on declarations only"]


def replay(ctx, path):
    with open(path) as fp:
        p = json.load(fp)["payload"]
    print("re-run the check; payload:", p)
    ctx.count(states=1, transitions=1)
