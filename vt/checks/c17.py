"""C17 - invalid input is rejected with a diagnostic, never by an internal failure.

(1) every token string up to a length bound over the declaration alphabet, parsed by the real
    declast.check_decl;  (2) every single-token deletion / insertion / substitution of the valid
    declarations of the derivation grammar;  (3) every valid ("must") declaration is accepted;
(4) every attribute name x value form x site through the real generate pass;  (5) every single
    structural mutation of a valid YAML description through the console entry point.
Outcome classes: accepted / diagnostic (RuntimeError, SystemExit, NotImplementedError) /
internal exception / hang.  Accepted input must be bracket-balanced and every token must be
accounted for in Shroud's own rendering of what it parsed.
"""
from __future__ import annotations

import collections
import copy
import itertools
import json
import os
import re
import signal
import traceback

import yaml

from .. import declgen, isolate
from ..common import DIAGNOSTIC_EXC

SIGMA = ["int", "const", "unsigned", "long", "void", "Cls", "std", "vector", "a", "b", "3", "*", "&", "(", ")",
         "[", "]", "<", ">", ",", "::", "=", "+intent(in)", "+x(", "~", "{", "}", ";", "...", "template", "enum",
         "struct", "0x1F"]
CORE = ["int", "const", "a", "*", "&", "(", ")", ",", "["]
OPEN = {"(": ")", "[": "]", "<": ">", "{": "}"}
CLOSE = {v: k for k, v in OPEN.items()}
IDEMPOTENT = {"const", "volatile", "static", "extern", "typedef", "auto", "register"}


def make_namespace():
    from shroud import ast

    lib = ast.LibraryNode(library="lib")
    lib.add_class("Cls")
    ns = lib.add_namespace("ns")
    ns.add_class("Cls2")
    # typedefs at library scope and inside the namespace
    lib.add_declaration("typedef int Index")
    ns.add_declaration("typedef long Offset")
    return lib


def balanced(tokens):
    st = []
    for t in tokens:
        if t in OPEN:
            st.append(t)
        elif t in CLOSE:
            if not st or st[-1] != CLOSE[t]:
                return False
            st.pop()
    return not st


def render(node):
    """Shroud's own rendering of what it parsed, as text (for token accounting)."""
    from shroud import declast, todict

    if isinstance(node, declast.Declaration):
        return node.gen_decl()
    if isinstance(node, list):  # the parameter list of a fortran_generic decl
        return "( " + " , ".join(d.gen_decl() for d in node) + " )"
    if isinstance(node, declast.Namespace):
        return "namespace " + node.name
    if isinstance(node, declast.CXXClass):
        s = "class " + node.name
        for access, name, _ in node.baseclass:
            s += " : %s %s" % (access, name)
        return s
    if isinstance(node, declast.Struct):
        s = "struct " + node.name
        if node.members:
            s += " { " + " ".join(m.gen_decl() + " ;" for m in node.members) + " }"
        return s
    if isinstance(node, declast.Enum):
        s = "enum %s%s { " % ((node.scope + " ") if node.scope else "", node.name)
        s += " , ".join(m.name + (" = " + todict.print_node(m.value) if m.value is not None else "") for m in node.members)
        return s + " }"
    if isinstance(node, declast.Template):
        return "template < " + " , ".join(p.name for p in node.parameters) + " > " + render(node.decl)
    raise TypeError(type(node))


def tokens_of(text):
    from shroud import declast

    return [t.value for t in declast.tokenize(text)]


def collapse(toks):
    """Fold every '+name', '+name(...)' and '+name=v' into one pseudo token; a repeated
    attribute name keeps its last occurrence (as a mapping does)."""
    out = []
    attrs = {}
    i = 0
    sq = 0  # inside [ ] a '+' is the arithmetic operator of an extent expression, never an attribute
    while i < len(toks):
        if toks[i] == "[":
            sq += 1
        elif toks[i] == "]" and sq:
            sq -= 1
        if toks[i] == "+" and i + 1 < len(toks) and not sq:
            name = toks[i + 1]
            j = i + 2
            if j < len(toks) and toks[j] == "(":
                depth = 0
                while j < len(toks):
                    depth += toks[j] == "("
                    depth -= toks[j] == ")"
                    j += 1
                    if depth == 0:
                        break
                val = "+%s(%s)" % (name, "".join(toks[i + 3:j - 1]))
            elif j < len(toks) and toks[j] == "=" and j + 1 < len(toks) and toks[j + 1] not in ("+", ")", ",", ";"):
                val = "+%s(%s)" % (name, toks[j + 1])
                j += 2
            else:
                val = "+" + name
            if name in attrs:
                out[attrs[name]] = None
            attrs[name] = len(out)
            out.append(val)
            i = j
        else:
            out.append(toks[i])
            i += 1
    return [t for t in out if t is not None]


def numnorm(tok):
    """A numeric literal by value: 1e3, 1000.0 and 1000. are one token; so are 2. and 2.0, and 010 and 8."""
    m = re.match(r"^(\+\w+\()(.*)\)$", tok)
    if m:
        return m.group(1) + numnorm(m.group(2)) + ")"
    if re.match(r"^0[0-7]+$", tok):
        return str(int(tok, 8))  # a C octal literal is recorded (and rendered) by its value: 010 is 8
    if re.match(r"^\d+$", tok):
        return tok
    if re.match(r"^(\d+\.?\d*|\.\d+)([eE][-+]?\d+)?$", tok):
        try:
            return repr(float(tok))
        except ValueError:
            return tok
    return tok


def dropped_tokens(text, node):
    """Tokens of the accepted input that Shroud's rendering of the parse does not account for."""
    try:
        rtoks = [numnorm(t) for t in collapse(tokens_of(render(node)))]
    except Exception:  # noqa - rendering trouble is C09's subject
        return None
    itoks = tokens_of(text)
    if itoks and itoks[-1] == ";":
        itoks = itoks[:-1]
    itoks = [numnorm(t) for t in collapse(itoks)]
    have = collections.Counter(rtoks)
    want = collections.Counter(itoks)
    missing = []
    for tok, n in want.items():
        if tok in IDEMPOTENT:
            n = 1
        if tok in ("typename", "class") and "template" in want:
            continue
        if tok == "private":
            continue
        if tok in ("{", "}") and "struct" in want and not getattr(node, "members", None):
            continue
        if tok == "," and "enum" in want and n - have.get(tok, 0) == 1 and ", }" in " ".join(itoks):
            continue  # a trailing comma in an enumerator list is part of the grammar (C99, C++11)
        d = n - have.get(tok, 0)
        if d > 0:
            missing.extend([tok] * d)
    return missing


class Hang(Exception):
    pass


def _alarm(signum, frame):
    raise Hang()


def parse_one(text, lib, stats, bad, limit=40, entry="decl"):
    """Parse with the real parser; classify; apply the oracles. Returns the outcome class."""
    from shroud import ast, declast

    signal.alarm(5)
    try:
        if entry == "generic":
            g = ast.FortranGeneric(text)
            g.parse_generic(lib)
            node = g.decls
        else:
            node = declast.check_decl(text, namespace=lib)
        out = "accepted"
    except Hang:
        out = "hang"
        node = None
    except Exception as e:  # noqa
        name = type(e).__name__
        if name in DIAGNOSTIC_EXC:
            out = "diagnostic"
            msg = str(e)
            if not msg.strip():
                out = "empty-diagnostic"
        else:
            tb = traceback.extract_tb(e.__traceback__)
            site = "?"
            for fr in reversed(tb):
                if os.sep + "shroud" + os.sep in fr.filename:
                    site = "%s:%s" % (os.path.basename(fr.filename), fr.name)
                    break
            out = "internal %s %s" % (name, site)
        node = None
    finally:
        signal.alarm(0)
    stats[out] = stats.get(out, 0) + 1
    if out == "accepted":
        toks = collapse(tokens_of(text))  # attribute values are opaque text
        if not balanced(toks):
            _add(bad, limit, "accepted-unbalanced", text, "unbalanced brackets accepted: %r" % text)
        else:
            miss = dropped_tokens(text, node)
            if miss:
                kind = "accepted-dropping " + " ".join(sorted(set(miss)))
                _add(bad, limit, kind, text, "accepted %r but the parse does not account for %r (rendered as %r)" % (
                    text, miss, render(node)))
    elif out not in ("diagnostic",):
        _add(bad, limit, out, text, "%s on %r" % (out, text))
    return out


def _add(bad, limit, key, text, what):
    lst = bad.setdefault(key, [0, text, what])
    lst[0] += 1
    if len(text) < len(lst[1]):
        lst[1], lst[2] = text, what


def tokens_shard(args):
    alphabet, n, shard, nshards = args
    from shroud import typemap

    typemap.initialize()
    lib = make_namespace()
    signal.signal(signal.SIGALRM, _alarm)
    stats, bad = {}, {}
    cnt = 0
    for idx, combo in enumerate(itertools.product(alphabet, repeat=n)):
        if idx % nshards != shard:
            continue
        cnt += 1
        parse_one(" ".join(combo), lib, stats, bad)
    return cnt, stats, bad


GENERIC_ALPHABET = ["(", ")", ",", "int", "double", "x", "y", "*", "const", "+intent(in)", "=", "1"]


def generic_shard(args):
    """Every token string up to length n handed to the parser of a fortran_generic 'decl'."""
    n, shard, nshards = args
    from shroud import typemap

    typemap.initialize()
    lib = make_namespace()
    signal.signal(signal.SIGALRM, _alarm)
    stats, bad = {}, {}
    cnt = 0
    for k in range(0, n + 1):
        for idx, combo in enumerate(itertools.product(GENERIC_ALPHABET, repeat=k)):
            if idx % nshards != shard:
                continue
            cnt += 1
            text = " ".join(combo)
            out = parse_one(text, lib, stats, bad, entry="generic")
            if out == "accepted" and (not combo or combo[0] != "(" or combo[-1] != ")"):
                _add(bad, 40, "generic accepted-not-a-parameter-list", text, "fortran_generic decl %r accepted although it is not one parenthesised parameter list" % text)
    return cnt, stats, bad


OTHER_STATEMENTS = ["template<typename T> void f(T a)", "template<typename T, typename U> T g(U a, T * b)", "template<typename T> class Tc",
                    "class Cnew", "class Cnew : public Cls", "namespace ns2", "enum Color { RED, BLUE = 2 }", "enum class Mode { ON, OFF }",
                    "struct St { int i; double d; }", "typedef int Index", "void g(std::vector<int> &v)", "const std::string &h(ns::Cls2 *p)"]


def mutation_shard(args):
    level, shard, nshards = args
    from shroud import typemap

    typemap.initialize()
    lib = make_namespace()
    signal.signal(signal.SIGALRM, _alarm)
    stats, bad, vstats = {}, {}, {}
    cnt = 0
    seen = set()
    subst = ["int", "const", "*", "&", "(", ")", ",", "[", "]", "<", ">", "=", "::", "+", "a", "3", ";", "~", "{", "...",
             # literal spellings the tokenizer may or may not know: hexadecimal, exponent, trailing dot, character, string, sign
             "0x10", "1e3", "2.", "'c'", '"s"', "-"]
    for idx, (kind, d) in enumerate(declgen.all_decls(max(level, 2))):
        if idx % nshards != shard:
            continue
        text = d.text()
        # (3) valid => accepted
        o = parse_one(text, lib, vstats, bad)
        if d.must == "must" and o == "diagnostic":
            _add(bad, 40, "valid-rejected", text, "documented declaration rejected: %r" % text)
    for idx, (kind, d) in enumerate(declgen.all_decls(level)):
        if idx % nshards != shard:
            continue
        text = d.text()
        if kind == "function" and idx % 7:
            continue  # mutate every variable/funcptr/attrs declaration and a seventh of the functions
        toks = tokens_of(text)
        muts = []
        for i in range(len(toks)):
            muts.append(toks[:i] + toks[i + 1:])
            for s in subst:
                if s != toks[i]:
                    muts.append(toks[:i] + [s] + toks[i + 1:])
        for i in range(len(toks) + 1):
            for s in subst:
                muts.append(toks[:i] + [s] + toks[i:])
        for m in muts:
            t = " ".join(m)
            h = hash(t)
            if h in seen:
                continue
            seen.add(h)
            cnt += 1
            parse_one(t, lib, stats, bad)
    # the statement forms the declaration generator does not produce: templates, classes, namespaces, enumerations, structs, typedefs
    if shard == 0:
        for text in OTHER_STATEMENTS:
            o = parse_one(text, lib, vstats, bad)
            if o == "diagnostic":
                _add(bad, 40, "valid-rejected", text, "documented declaration rejected: %r" % text)
            toks = tokens_of(text)
            muts = []
            for i in range(len(toks)):
                muts.append(toks[:i] + toks[i + 1:])
                for s_ in subst:
                    if s_ != toks[i]:
                        muts.append(toks[:i] + [s_] + toks[i + 1:])
            for i in range(len(toks) + 1):
                for s_ in subst:
                    muts.append(toks[:i] + [s_] + toks[i:])
            for m in muts:
                t = " ".join(m)
                h = hash(t)
                if h in seen:
                    continue
                seen.add(h)
                cnt += 1
                parse_one(t, lib, stats, bad)
    return cnt, stats, bad, vstats


# ------------------------------------------------------------------ (4) attributes
ATTR_NAMES = ["allocatable", "assumedtype", "capsule", "cdesc", "charlen", "default", "deref", "dimension", "external",
              "free_pattern", "hidden", "implied", "intent", "len", "len_trim", "name", "owner", "pure", "rank", "size",
              "value", "readonly", "context", "bogus", "Intent"]
VALUE_FORMS = ["", "(in)", "(3)", "(n)", "(size(arr))", "(..)", "(caller)", "(allocatable)", "=3", "=x", "()", "(-1)",
               "(n,)", "(1+)", "(size(arr+1))", "(n m)", "(size(arr)*)", "(len(n)+1)"]
SITES = {
    "function": "int *f(int n, double *arr) %s",
    "argument": "void f(int n, double *arr %s)",
    "scalar-argument": "void f(int n %s, double *arr)",
    "char-argument": "void f(char *s %s)",
    "string-result": "const std::string &f() %s",
    "variable": "int var %s",
    "struct-member": "struct S { int n; double *arr %s; };",
    "funcptr-parameter": "void f(int (*fn)(int n %s, double *arr))",
    "funcptr-argument": "void f(int (*fn)(int n) %s, double *arr)",
    "class-member": "@class int *arr %s",
}
# Misuse the code itself documents as illegal (each has its own RuntimeError in generate.py)
ILLEGAL = [
    "void f(int *n +value+dimension(3))",
    "void f(double *a +rank(1)+dimension(3))",
    "void f(int n +intent(out))",
    "void f(int n +charlen(20))",
    "void f(int *n +charlen(20))",
    "void f(char *s +charlen)",
    "void f(int n +deref(allocatable))",
    "void f(int n +dimension(3))",
    "void f(int n +rank(1))",
    "int *f() +owner(nobody)",
    "int *f() +free_pattern(nosuch)",
    "void f(int *n +intent(sideways))",
    "void f(int *n +rank(-1))",
    "void f(int *n +rank(x))",
    "void f(int *n +rank(8))",
    "void f(int *n +rank)",
    "void f(int *n +dimension)",
    "void f(int *n +dimension(3,))",
    "void f(int *n +deref(nothing))",
    "int f() +intent(in)",
    "int f() +bogus",
    "void f(int *n +bogus)",
    "struct S { int var +intent(in); };",
    "struct S { int var +dimension(3); };",
    "void f(void *n +assumedtype+value)",
    "void f(int a = 1, int b)",
    "void f(int *array, int n +implied(size(array,n2)))",
    "void f(int *array, int n +implied(size(array2)))",
    "void f(int scalar, int n +implied(len(scalar,1)))",
    "void f(std::vector &v)",
    "void f(int<double> v)",
]
# documented exclusions over the whole value alphabet of both attributes, in both orders: rank with dimension
# (input.rst: "rank and dimension cannot be specified together"; rank 0 is a legal rank), value with dimension
for _r in (0, 1, 2, 7):
    for _d in ("3", "n", "3,4", "n+1"):
        ILLEGAL.append("void f(double *a +rank(%d)+dimension(%s), int n)" % (_r, _d))
        ILLEGAL.append("void f(double *a +dimension(%s)+rank(%d), int n)" % (_d, _r))
for _d in ("3", "n"):
    ILLEGAL.append("void f(int *a +dimension(%s)+value, int n)" % _d)
# the implied() helper functions with every argument count from 0 to 3: only size(a), size(a,d), len(s), len_trim(s) are legal
for _fn, _ok in (("size", (1, 2)), ("len", (1,)), ("len_trim", (1,))):
    for _n in range(0, 4):
        if _n in _ok:
            continue
        _args = ", ".join(["s", "1", "2"][:_n])
        ILLEGAL.append("void f(char *s, int *a +rank(1), int n +implied(%s(%s)))" % (_fn, _args))
# input.rst, intent: "Nonpointer arguments can only be intent(in)": every by-value type with every other intent
for _t in ("int", "double", "bool", "long", "size_t"):
    for _i in ("out", "inout", "OUT", "INOUT"):
        ILLEGAL.append("void f(%s n +intent(%s))" % (_t, _i))
        ILLEGAL.append("void f(int *a +rank(1), %s n +intent(%s))" % (_t, _i))
# typedefs of pointers and references are refused ("Pointers not supported in typedef")
for _d in ("int *P", "int &R", "const double &R", "int **P", "int *&P", "double * const P"):
    ILLEGAL.append("typedef " + _d)
# text left over after the expression of an attribute value
# a qualified name must be a member of the scope it names
ILLEGAL += ["@scoped void f(Shape::Color c)", "@scoped void f(geo::Color c)", "@scoped void f(geo::Box::Color c)", "@scoped void f(Shape::Box *b)", "@scoped void f(geo::Shape *s)"]
VALID_SCOPED = ["@scoped void f(Shape::Kind k)", "@scoped void f(Color c)", "@scoped void f(geo::Box *b)", "@scoped void f(Shape *s)"]
ILLEGAL += ["void f(int *a +dimension(n 2), int n)", "void f(int *a +dimension(3 4))", "void f(int *a +dimension(2 n), int n)", "const char *f() +len(3 0)",
            "void f(int *a +rank(1 1))", "void f(int *a +dimension(n_ 2), int n_)",
            "void f(int *a +dimension(n m), int n, int m)", "void f(int *a +rank(1), int n +implied(size(a) 2))", "void f(int *a +dimension(n)) )", "int *f(int n) +dimension(n n)"]
# the language of the library: what only exists in C++ is refused in a C library (the std:: names, references, classes with
# member functions, templates, namespaces), and C declarations that merely look like them are accepted
ILLEGAL += ["@c void f(std::string &s)", "@c void f(const std::string *s)", "@c std::string f()", "@c void f(std::vector<int> &v)",
            "@c const std::vector<double> &f()", "@c void f(string s)", "@c void f(vector<int> v)", "@c void f(std::string s, int n)"]
VALID_SCOPED += ["@c void f(int std)", "@c void f(int string)", "@c void f(const char *s, int vector)", "@c int f(void)", "@c void f(int *a +rank(1), size_t n +implied(size(a)))"]
# destructors: the name after ~ is the (unqualified) name of the class it is declared in, wherever that class is declared
for _where in ("global", "namespace", "nested", "nsfield", "ns2"):
    VALID_SCOPED.append("@dtor:%s ~Circle()" % _where)
    ILLEGAL += ["@dtor:%s ~Other()" % _where, "@dtor:%s ~geom()" % _where]
ILLEGAL += ["@dtor:namespace ~geom::Circle()", "@dtor:nested ~Outer()"]
# digits that are no C literal
ILLEGAL += ["enum E { A = 09 }", "enum E { A = 1, B = A + 08 }", "enum E { A = 019, B }", "@c enum E { A = 1, B = A * 09 }"]
VALID_SCOPED += ["enum E { A = 07, B = A + 010 }", "enum E { A = 0, B = 00 }"]
# a struct holds data: a member function (with or without parameters) is refused (so is a function-pointer member: diagnosed, not supported)
ILLEGAL += ["struct S { int i; int f(); };", "struct S { int i; int f(void); };", "struct S { int f(int a); };", "@c struct S { int i; double g(void); };",
            "@c struct S { int i; int f(); };"]
VALID_SCOPED += ["@c struct S { int i; double d; };", "struct S { int i; double d; };"]
# names of an inner scope (a template parameter, a member of a class, a typedef inside a namespace) declared by EARLIER declarations of
# the same library: used bare in a later declaration they are undeclared, however many declarations came before
ILLEGAL += ["@after template<typename U> void second(T arg, U other)", "@after void g(T arg)", "@after T g()", "@after void g(Part p)", "@after void g(Mode m)",
            "@after void g(Cell<T> *c)", "@after template<typename U> void h(Item i, U u)"]
VALID_SCOPED += ["@after template<typename U> void second(U arg, U other)", "@after void g(deep::Part p)", "@after void g(Holder::Mode m)", "@after void g(Holder *h)",
                 "@after template<typename T> void again(T arg)"]
ILLEGAL = list(dict.fromkeys(ILLEGAL))


def attr_case(decl):
    """Library with one declaration through create_library_from_dictionary + generate_functions."""
    from shroud import ast, generate, main, typemap

    typemap.initialize()
    decls = [dict(decl=decl)]
    if decl.startswith("@scoped "):
        # a file-scope enum, a class with an enum of its own, a namespace with a class: then the declaration
        decls = [dict(decl="enum Color { RED, BLUE }"), dict(decl="class Shape", declarations=[dict(decl="Shape()"), dict(decl="enum Kind { A, B }")]),
                 dict(decl="namespace geo", declarations=[dict(decl="class Box", declarations=[dict(decl="Box()")])]), dict(decl=decl[len("@scoped "):])]
    if decl.startswith("@class "):
        # the declaration is a data member of a class
        decls = [dict(decl="class Cm", declarations=[dict(decl="Cm()"), dict(decl=decl[len("@class "):])])]
    if decl.startswith("@after "):
        decls = [dict(decl="template<typename T> void first(T arg)", cxx_template=[dict(instantiation="<int>")]),
                 dict(decl="template<typename T, typename Item> void pair(T a, Item b)", cxx_template=[dict(instantiation="<int, double>")]),
                 dict(decl="template<typename T> class Cell", cxx_template=[dict(instantiation="<int>")], declarations=[dict(decl="Cell()"), dict(decl="T get()")]),
                 dict(decl="class Holder", declarations=[dict(decl="Holder()"), dict(decl="enum Mode { M_A, M_B }"), dict(decl="typedef int Slot")]),
                 dict(decl="namespace deep", declarations=[dict(decl="typedef long Part"), dict(decl="void inside(Part p)")]),
                 dict(decl=decl[len("@after "):], **(dict(cxx_template=[dict(instantiation="<double>")]) if decl[len("@after "):].startswith("template") else {}))]
    extra = {}
    if decl.startswith("@c "):
        decls = [dict(decl=decl[3:])]
        extra = dict(language="c")
    if decl.startswith("@dtor:"):
        where, text = decl[len("@dtor:"):].split(" ", 1)
        cls = dict(decl="class Circle", declarations=[dict(decl="Circle()"), dict(decl=text)])
        if where == "global":
            decls = [cls]
        elif where == "namespace":
            decls = [dict(decl="namespace geom", declarations=[cls])]
        elif where == "ns2":
            decls = [dict(decl="namespace geom", declarations=[dict(decl="namespace inner", declarations=[cls])])]
        elif where == "nested":
            decls = [dict(decl="class Outer", declarations=[dict(decl="Outer()"), cls])]
        else:
            decls = [cls]
            extra = dict(namespace="geom")
    d = dict(library="lib", cxx_header="lib.hpp", declarations=decls,
             options=dict(wrap_python=True, wrap_lua=True), **extra)
    lib = ast.create_library_from_dictionary(d)
    cfg = main.Config()
    cfg.log = open(os.devnull, "w")
    generate.generate_functions(lib, cfg)
    return "accepted"


def attr_shard(decls):
    out = []
    for decl in decls:
        r = isolate.call_in_child(attr_case, (decl,), timeout=20)
        out.append((decl, r.status, r.exc, r.site, (r.msg or "")[:200]))
    return out


# ------------------------------------------------------------------ (5) YAML structure
BASE_YAML = """\
library: ylib
cxx_header: ylib.hpp
language: c++
namespace: outer
copyright:
- line one
options:
  wrap_python: true
  wrap_lua: true
  debug: true
format:
  C_prefix: YL_
typemap:
- type: other::Extra
  fields:
    base: shadow
    wrap_header:
    - wrapExtra.h
    c_type: OTH_Extra
    f_module_name: other_mod
    f_derived_type: extra
    f_capsule_data_type: SHROUD_extra_capsule
    f_to_c: "{f_var}%cxxmem"
declarations:
- decl: int f1(int a, double *b +intent(out))
  options:
    F_force_wrapper: true
  format:
    F_name_function: ffone
  doxygen:
    brief: brief text
    description: |
      long text
  attrs:
    a:
      value: true
  fstatements:
    c:
      pre_call:
      - // pre
  splicer:
    c:
    - return 1;
- decl: class C1
  cxx_header: c1.hpp
  python:
    type: [ init ]
  declarations:
  - decl: C1()
  - decl: void m(const std::string &s)
    return_this: false
    cpp_if: ifdef X
  - decl: int field +readonly;
- decl: namespace ns1
  options:
    flatten_namespace: false
  declarations:
  - decl: enum E { A, B = 2 }
  - decl: struct S { int i; double d; };
- block: true
  options:
    F_CFI: false
  declarations:
  - decl: |
      template<typename T> void t1(T x)
    cxx_template:
    - instantiation: <int>
    - instantiation: <double>
    fortran_generic:
    - decl: (float x)
      function_suffix: _f
- decl: typedef int Alias
splicer_code:
  c:
    C_definitions:
    - // user code
patterns:
  C_invalid_name: |
    return NULL;
"""
REPLACEMENTS = [None, 7, "text", [], {}, ["x"], {"k": "v"}, True]
# single mutations for which the code has a dedicated diagnostic: must be rejected, not merely survive
YAML_MUST_REJECT = [
    (("language",), "fortran", ("language", "fortran")),
    (("declarations", 3, "declarations", 0, "cxx_template"), "text", "cxx_template"),
    (("declarations", 3, "declarations", 0, "cxx_template"), ["x"], "cxx_template"),
    (("declarations", 3, "declarations", 0, "cxx_template"), [{"k": "v"}], "cxx_template"),
    (("declarations", 3, "declarations", 0, "fortran_generic"), "text", "fortran_generic"),
    (("declarations", 3, "declarations", 0, "fortran_generic"), ["x"], "fortran_generic"),
    (("declarations", 3, "declarations", 0, "fortran_generic"), [{"k": "v"}], "fortran_generic"),
    (("declarations", 0, "default_arg_suffix"), "text", "default_arg_suffix"),
    (("declarations", 0), {"zork": "v"}, "zork"),
    (("typemap", 0, "fields", "base"), "other", ("base", "other")),
    (("declarations", 1, "declarations", 0), {"decl": "namespace inner"}, "namespace"),
    (("declarations", 4, "decl"), "typedef nosuchtype Alias", "nosuchtype"),
    # text after the closing '>' of an instantiation
    (("declarations", 3, "declarations", 0, "cxx_template", 0, "instantiation"), "<int> junk", ("EOF", "junk")),
    (("declarations", 3, "declarations", 0, "cxx_template", 1, "instantiation"), "<double>>", ("EOF", ">")),
    (("declarations", 3, "declarations", 0, "cxx_template", 0, "instantiation"), "<int", ("GT", ">", "EOF")),
    # typemap fields: only the documented field names, not whatever happens to be an attribute of the implementation
    (("typemap", 0, "fields", "update"), "x", "update"),
    (("typemap", 0, "fields", "name"), "other::Extra2", "name"),
    (("typemap", 0, "fields", "clone_as"), "x", "clone_as"),
    (("typemap", 0, "fields", "defaults"), "x", "defaults"),
    (("typemap", 0, "fields", "_order"), "x", "_order"),
    (("typemap", 0, "fields", "compute_flat_name"), "x", "compute_flat_name"),
    (("typemap", 0, "fields", "nosuchfield"), "x", "nosuchfield"),
]


def yaml_paths(node, path=()):
    """Every node of the tree (path tuples)."""
    yield path
    if isinstance(node, dict):
        for k in node:
            for p in yaml_paths(node[k], path + (k,)):
                yield p
    elif isinstance(node, list):
        for i, v in enumerate(node):
            for p in yaml_paths(v, path + (i,)):
                yield p


def yaml_mutations(tree):
    for path in yaml_paths(tree):
        if not path:
            continue
        for ri, rep in enumerate(REPLACEMENTS):
            t = copy.deepcopy(tree)
            node = t
            for p in path[:-1]:
                node = node[p]
            old = node[path[-1]]
            if type(old) == type(rep) and (old == rep or isinstance(rep, (bool, int, str))):
                if old == rep:
                    continue
            node[path[-1]] = copy.deepcopy(rep)
            yield ("replace", path, ri), t
        t = copy.deepcopy(tree)
        node = t
        for p in path[:-1]:
            node = node[p]
        del node[path[-1]]
        yield ("delete", path, -1), t


def yaml_case(args):
    workdir, mid, tree = args
    os.makedirs(workdir, exist_ok=True)
    with open(os.path.join(workdir, "y.yaml"), "w") as fp:
        yaml.safe_dump(tree, fp, default_flow_style=False, sort_keys=False)
    r = isolate.shroud_cli(["--outdir", workdir, "--logdir", workdir, "y.yaml"], cwd=workdir, timeout=30)
    import shutil

    shutil.rmtree(workdir, ignore_errors=True)
    return (mid, r.status, r.exc, r.site, (r.msg or "")[:200])


# ------------------------------------------------------------------ driver
def merge(ctx, label, stats, bad):
    for k, v in stats.items():
        ctx.outcome("%s %s" % (label, k.split(" ")[0] if k.startswith("internal") else k), v)
    for key, (n, text, what) in bad.items():
        ctx.violation("decl %s" % key, "%s [%d inputs, shortest shown]" % (what, n), {"kind": "decl", "text": text})


def run(ctx):
    quick = ctx.tier == "quick"
    W = ctx.workers
    nsh = W * 3
    # ---- (1) token strings
    plans = [(SIGMA, 3 if quick else 4, "sigma"), (CORE, 5 if quick else 7, "core")]
    for alphabet, maxlen, label in plans:
        for n in range(1, maxlen + 1):
            k = 1 if len(alphabet) ** n < 2000 else nsh
            res = isolate.pmap(tokens_shard, [(alphabet, n, s, k) for s in range(k)], W)
            cnt = sum(r[0] for r in res)
            ctx.count(states=cnt, transitions=cnt, validated=cnt)
            ctx.nontrivial_n(cnt)
            stats, bad = {}, {}
            for r in res:
                for a, b in r[1].items():
                    stats[a] = stats.get(a, 0) + b
                for key, (m, text, what) in r[2].items():
                    lst = bad.setdefault(key, [0, text, what])
                    lst[0] += m
                    if len(text) < len(lst[1]):
                        lst[1], lst[2] = text, what
            merge(ctx, "tokens", stats, bad)
            ctx.part("tokens " + label, strings=cnt, max_len=n, alphabet=len(alphabet))
    ctx.sample({"token_string": "int ( * a ) ( const int & , ["})
    # ---- (1b) the second parser entry point: the 'decl' of a fortran_generic entry
    gmax = 5 if quick else 6
    res = isolate.pmap(generic_shard, [(gmax, s_, nsh) for s_ in range(nsh)], W)
    cnt = sum(r[0] for r in res)
    ctx.count(states=cnt, transitions=cnt, validated=cnt)
    ctx.nontrivial_n(cnt)
    stats, bad = {}, {}
    for r in res:
        for a, b in r[1].items():
            stats[a] = stats.get(a, 0) + b
        for key, (m, text, what) in r[2].items():
            lst = bad.setdefault(key, [0, text, what])
            lst[0] += m
            if len(text) < len(lst[1]):
                lst[1], lst[2] = text, what
    merge(ctx, "generic", stats, bad)
    ctx.part("tokens fortran_generic", strings=cnt, max_len=gmax, alphabet=len(GENERIC_ALPHABET), outcomes=stats)
    # ---- (2)+(3) mutations of valid declarations
    level = 1 if quick else 2
    res = isolate.pmap(mutation_shard, [(level, s, nsh) for s in range(nsh)], W)
    cnt = sum(r[0] for r in res)
    stats, bad, vstats = {}, {}, {}
    for r in res:
        for a, b in r[1].items():
            stats[a] = stats.get(a, 0) + b
        for a, b in r[3].items():
            vstats[a] = vstats.get(a, 0) + b
        for key, (m, text, what) in r[2].items():
            lst = bad.setdefault(key, [0, text, what])
            lst[0] += m
            if len(text) < len(lst[1]):
                lst[1], lst[2] = text, what
    nvalid = sum(vstats.values())
    ctx.count(states=cnt + nvalid, transitions=cnt + nvalid, validated=cnt + nvalid)
    ctx.nontrivial_n(cnt)
    merge(ctx, "mutants", stats, bad)
    for a, b in vstats.items():
        ctx.outcome("valid " + a, b)
    ctx.part("mutations", grammar_level=level, valid_declarations=nvalid, single_token_mutants=cnt)
    ctx.sample({"mutant": "int * ( a", "of": "int * a"})
    # ---- (4) attributes
    decls = []
    names = ATTR_NAMES if not quick else ATTR_NAMES
    forms = VALUE_FORMS if not quick else VALUE_FORMS[:9]
    sites = SITES if not quick else {k: SITES[k] for k in ("function", "argument", "char-argument", "variable", "funcptr-parameter", "class-member")}
    for site, tmpl in sites.items():
        for nm in names:
            for vf in forms:
                decls.append(tmpl % ("+" + nm + vf))
    decls += ILLEGAL + VALID_SCOPED
    chunks = [decls[i::W * 2] for i in range(W * 2)]
    ares = []
    for part in isolate.pmap(attr_shard, chunks, W):
        ares.extend(part)
    ctx.count(states=len(ares), transitions=len(ares), validated=len(ares))
    ctx.nontrivial_n(len(ares))
    for decl, status, exc, site, msg in ares:
        ctx.outcome("attrs " + status)
        if status == "ok":
            if decl in ILLEGAL:
                ctx.violation("attrs illegal-accepted %s" % decl, "documented illegal attribute use accepted without diagnostic: %s" % decl,
                              {"kind": "attr", "decl": decl})
        elif status == "diagnostic":
            if decl in VALID_SCOPED:
                ctx.violation("attrs valid-rejected %s" % decl, "a valid declaration is rejected: %s: %s" % (decl, msg), {"kind": "attr", "decl": decl})
            if not msg.strip():
                ctx.violation("attrs empty-diagnostic %s" % decl, "diagnostic without text for %s" % decl, {"kind": "attr", "decl": decl})
        else:
            ctx.violation("attrs %s %s %s" % (status, exc, site), "%s %s at %s (%s) for %r" % (status, exc, site, msg, decl),
                          {"kind": "attr", "decl": decl})
    ctx.part("attributes", declarations=len(ares), names=len(names), value_forms=len(forms), sites=len(sites), illegal=len(ILLEGAL))
    ctx.sample({"attribute_decl": decls[37]})
    # ---- (5) YAML structure
    tree = yaml.safe_load(BASE_YAML)
    base = ctx.subdir("yaml")
    r0 = yaml_case((os.path.join(base, "base"), "base", tree))
    if r0[1] != "ok":
        raise RuntimeError("base YAML description is not accepted: %s" % (r0,))
    muts = list(yaml_mutations(tree))
    if quick:
        # every deletion, and replacements by null / string / list / map
        muts = [m for m in muts if m[0][0] == "delete" or m[0][2] in (0, 2, 3, 6)]
    for path, val, expect in YAML_MUST_REJECT:
        t = copy.deepcopy(tree)
        node = t
        for p in path[:-1]:
            node = node[p]
        node[path[-1]] = copy.deepcopy(val)
        muts.append((("must-reject", path, repr(val), expect), t))
    jobs = [(os.path.join(base, "m%d" % i), mid, t) for i, (mid, t) in enumerate(muts)]
    yres = isolate.pmap(yaml_case, jobs, W, chunksize=4)
    ctx.count(states=len(yres), transitions=len(yres), validated=len(yres))
    ctx.nontrivial_n(len(yres))
    for mid, status, exc, site, msg in yres:
        ctx.outcome("yaml " + status)
        if mid[0] == "must-reject" and (status == "ok" or (status == "diagnostic" and not any(
                alt in msg for alt in (mid[3] if isinstance(mid[3], tuple) else (mid[3],))))):
            ctx.violation("yaml accepted %s=%s" % (mid[1], mid[2]),
                          "YAML misuse with a dedicated diagnostic: %s = %s -> %s %r (the message should name %r)" % (
                              mid[1], mid[2], status, msg, mid[3]), {"kind": "yaml", "mutation": mid})
            continue
        if status in ("ok", "diagnostic"):
            if status == "diagnostic" and not msg.strip():
                ctx.violation("yaml empty-diagnostic %s" % (mid,), "exit without a message for %s" % (mid,), {"kind": "yaml", "mutation": mid})
            continue
        ctx.violation("yaml %s %s %s" % (status, exc, site),
                      "%s %s at %s (%s) for YAML mutation %s -> %r" % (status, exc, site, msg, mid, REPLACEMENTS[mid[2]] if isinstance(mid[2], int) and mid[2] >= 0 else mid[2]),
                      {"kind": "yaml", "mutation": mid})
    ctx.part("yaml", mutations=len(yres), nodes=len(list(yaml_paths(tree))))
    ctx.sample({"yaml_mutation": ["replace", ["declarations", 0, "options"], "text"]})
    ctx.cov["rule"] = (
        "every token string over the alphabets up to the length bound; every single-token deletion/insertion/"
        "substitution of every valid derivation; every attribute name x value form x site; every single structural "
        "YAML mutation - each executed on the real parser / generate pass / console entry; states = distinct inputs"
    )
    ctx.cov["bounds"] = {"sigma_len": plans[0][1], "core_len": plans[1][1], "mutation_grammar_level": level}
    ctx.assumptions += [
        "diagnostic = RuntimeError / SystemExit / NotImplementedError with a non-empty message",
        "token accounting: const/volatile/storage words and repeated attributes are idempotent; a trailing ';' is optional",
    ]


def replay(ctx, path):
    from shroud import declast, typemap

    with open(path) as fp:
        p = json.load(fp)["payload"]
    if p["kind"] == "decl":
        typemap.initialize()
        lib = make_namespace()
        signal.signal(signal.SIGALRM, _alarm)
        stats, bad = {}, {}
        print(parse_one(p["text"], lib, stats, bad), bad)
    elif p["kind"] == "attr":
        print(attr_shard([p["decl"]]))
    else:
        print("re-run the check; mutation:", p)
    ctx.count(states=1, transitions=1)
