"""End-to-end string conversion through generated wrappers (filled in with the atom machinery)."""


def run_into(ctx):
    return
