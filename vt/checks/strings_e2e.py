"""C10 end to end: every string atom driven from Fortran through the generated wrappers with
EVERY actual-argument text of length 0..N over {'a', blank} (and every declared length for
output variables); c and c++, F_CFI off and on.  Oracle: the C01 reference model (trailing
blanks trimmed on the way in, NUL terminated; truncated / blank padded on the way out)."""
from __future__ import annotations

import itertools
import os

from .. import atoms as A
from .. import isolate


def Over(atom, vals):
    return atom.with_values(vals)


def all_texts(n):
    out = []
    for k in range(n + 1):
        out += ["".join(t) for t in itertools.product("a ", repeat=k)]
    return out


def funcs(maxlen):
    texts = all_texts(maxlen)
    nonempty = [t for t in texts if t]
    fs = []
    fs.append(A.Func("s_cstr_in", A.VoidRes(), [(Over(A.CStrIn(), texts), "s")]))
    # arrays of strings (char **names +intent(in)+rank(1)): each element arrives trimmed and NUL terminated, and a scalar string
    # next to the array keeps its own rule; implied lengths of a string argument
    fs.append(A.Func("s_strarr_in", A.VoidRes(), [(A.StrArrIn(), "names")]))
    fs.append(A.Func("s_strarr_then_in", A.VoidRes(), [(A.StrArrIn(), "names"), (Over(A.CStrIn(), ["ab ", ""]), "s")]))
    fs.append(A.Func("s_implied_len_trim", A.VoidRes(), [(Over(A.CStrInImplied("len_trim"), texts), "s")]))
    fs.append(A.Func("s_implied_len", A.VoidRes(), [(Over(A.CStrInImplied("len"), texts), "s")]))
    for form in ("cref", "val", "cptr"):
        fs.append(A.Func("s_str_in_" + form, A.VoidRes(), [(Over(A.StrIn(form), texts), "s")]))
    fs.append(A.Func("s_cstr_inout", A.VoidRes(), [(Over(A.CStrInout(), nonempty), "s")]))
    fs.append(A.Func("s_cstr_out", A.VoidRes(), [(Over(A.CStrOut(), [5, 6, 7, 9, 16]), "s")]))
    fs.append(A.Func("s_str_out", A.VoidRes(), [(Over(A.StrOut("out"), list(range(0, 9))), "s")]))
    inout = [(t, ln) for t in texts for ln in range(max(1, len(t)), max(1, len(t)) + 4) if ln >= len(t)]
    fs.append(A.Func("s_str_inout", A.VoidRes(), [(Over(A.StrOut("inout"), inout), "s")]))
    fs.append(A.Func("s_str_inout_p", A.VoidRes(), [(Over(A.StrOut("inout", ptr=True), inout), "s")]))
    # ORDER: an argument that needs the buffer treatment followed by one that does not (and the reverse)
    short = [t for t in texts if len(t) <= 2]
    fs.append(A.Func("s_out_then_in", A.VoidRes(), [(Over(A.CStrOut(), [5, 6, 9]), "d"), (Over(A.CStrIn(), short), "s")]))
    fs.append(A.Func("s_in_then_out", A.VoidRes(), [(Over(A.CStrIn(), short), "s"), (Over(A.CStrOut(), [5, 6, 9]), "d")]))
    fs.append(A.Func("s_out_then_char", A.VoidRes(), [(Over(A.CStrOut(), [5, 6, 9]), "d"), (A.CharVal(), "c")]))
    fs.append(A.Func("s_strout_then_in", A.VoidRes(), [(Over(A.StrOut("out"), [0, 4, 5, 6]), "d"), (Over(A.CStrIn(), short), "s")]))
    fs.append(A.Func("s_inout_then_in", A.VoidRes(), [(Over(A.CStrInout(), [t for t in nonempty if len(t) <= 2]), "d"), (Over(A.CStrIn(), short), "s")]))
    # a NULL char * result: zero length as an allocatable value, all blanks in a fixed-length one
    fs.append(A.Func("s_res_null", A.CStrRes(None), []))
    fs.append(A.Func("s_res_null_len", A.CStrRes(None, 6), []))
    fs.append(A.Func("s_res_null_arg", A.CStrRes(None), [(A.Val(A.NATIVE["int"]), "n")]))
    # string results of functions that also take arguments (the result's attributes, not the last argument's, decide its shape)
    T = A.NATIVE
    for rname, res in (("clen", A.CStrRes("hey you", 10)), ("slen", A.StrRes("val", "hey you", 10)), ("rlen", A.StrRes("cref", "hey you", 4)),
                       ("c", A.CStrRes("hey you")), ("s", A.StrRes("val", "result")), ("r", A.StrRes("cref", "refres"))):
        fs.append(A.Func("s_res_%s_int" % rname, res, [(A.Val(T["int"]), "n")]))
        fs.append(A.Func("s_res_%s_str" % rname, res, [(Over(A.CStrIn(), ["ab", ""]), "s")]))
        fs.append(A.Func("s_res_%s_int_str" % rname, res, [(A.Val(T["int"]), "n"), (Over(A.StrIn("cref"), ["ab"]), "s")]))
    # texts on both sides of std::string's small-buffer size (15): longer ones live on the heap, so a result that is read
    # after its owner was released shows
    for i, text in enumerate(["", "x", "hey you", "trail  ", "exactly 15 chars", "a result longer than sixteen characters"]):
        fs.append(A.Func("s_res_cstr%d" % i, A.CStrRes(text), []))
        fs.append(A.Func("s_res_str%d" % i, A.StrRes("val", text), []))
        fs.append(A.Func("s_res_ref%d" % i, A.StrRes("cref", text), []))
        fs.append(A.Func("s_res_own%d" % i, A.StrRes("cptr_caller", text), []))
        for flen in (1, 4, 7, 12):
            fs.append(A.Func("s_res_len%d_%d" % (i, flen), A.CStrRes(text, flen), []))
            # std::string results into a fixed-length variable (by value and by reference)
            fs.append(A.Func("s_res_slen%d_%d" % (i, flen), A.StrRes("val", text, flen), []))
            fs.append(A.Func("s_res_rlen%d_%d" % (i, flen), A.StrRes("cref", text, flen), []))
    return fs


def run_into(ctx):
    from . import c01

    quick = ctx.tier == "quick"
    maxlen = 3 if quick else 4
    fs = funcs(maxlen)
    wd = ctx.subdir("e2e")
    jobs = []
    for lang in ("cxx", "c"):
        for cfi in (0, 1):
            jobs.append((os.path.join(wd, "j%d" % len(jobs)), "Sstr", fs, lang, cfi, 0, None, False))
    res = isolate.pmap(c01.library_case, jobs, ctx.workers)
    retry = []
    for job, r in zip(jobs, res):
        if r.get("retry"):
            for f in job[2]:
                if job[3] in f.langs():
                    retry.append((os.path.join(wd, "r%d" % len(retry)), "Sstrx", [f], job[3], job[4], 0, None, False))
    rres = isolate.pmap(c01.library_case, retry, ctx.workers) if retry else []
    calls = 0
    unbuilt = set()
    for job, r in list(zip(jobs, res)) + list(zip(retry, rres)):
        if r.get("retry") and len(job[2]) > 1:
            continue
        calls += r["calls"]
        for kind, decl, msg in r["errs"]:
            if decl is None and len(job[2]) == 1:
                decl = job[2][0].decl()
            if kind in ("generate", "build"):
                # text that cannot be handed over at all breaks the rule as surely as text handed over wrongly - unless the
                # reason is one that property C05 records for this shape of function
                if len(job[2]) == 1 and not c01.known_unbuildable(ctx, c01.atom_sig(job[2][0]), job[3], "c+f", job[4]):
                    ctx.violation("e2e not-callable %s [%s cfi=%d]" % (c01.atom_sig(job[2][0]), job[3], job[4]),
                                  "%s cannot be called from Fortran at all (%s, F_CFI=%d): %s" % (decl, job[3], job[4], msg[:600]), {"kind": kind, "decl": decl})
                else:
                    unbuilt.add("%s [%s cfi=%d]" % (decl, job[3], job[4]))
                continue
            ctx.violation("e2e %s %s [%s cfi=%d]" % (kind, decl, job[3], job[4]), msg, {"kind": kind, "decl": decl})
    ctx.count(states=calls, transitions=calls, validated=calls)
    ctx.nontrivial_n(calls)
    ctx.part("e2e", calls=calls, max_text_length=maxlen, functions=len(fs), configurations=4,
             not_callable=sorted(unbuilt)[:10], not_callable_count=len(unbuilt))
    ctx.sample({"e2e": "call s_str_inout(s) with character(len=5) s = 'a a'"})
