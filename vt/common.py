"""Shared machinery: check context, evidence, known findings, violations, scratch."""
from __future__ import annotations

import atexit
import hashlib
import json
import os
import random
import re
import shutil
import sys
import tempfile
import time

VERIF = os.path.dirname(os.path.dirname(os.path.abspath(__file__)))
GUARD = "SHROUD_VERIF"

# Exceptions that count as a *diagnostic* (property C17 and everything that
# needs to tell "shroud refused the input" from "shroud broke").
DIAGNOSTIC_EXC = ("RuntimeError", "SystemExit", "NotImplementedError")


def use_repo(repo):
    """Make `import shroud` resolve to <repo>/shroud (the current working tree)."""
    repo = os.path.abspath(repo)
    # The /venv install is editable and points at /repo through a meta-path
    # finder; putting the directory first on sys.path wins over it.
    if repo in sys.path:
        sys.path.remove(repo)
    sys.path.insert(0, repo)
    for name in list(sys.modules):
        if name == "shroud" or name.startswith("shroud."):
            del sys.modules[name]
    import shroud  # noqa

    got = os.path.dirname(os.path.dirname(os.path.abspath(shroud.__file__)))
    if os.path.realpath(got) != os.path.realpath(repo):
        raise SystemExit("vt: shroud imported from %s, wanted %s" % (got, repo))
    os.environ[GUARD] = "1"
    return repo


class Findings(object):
    """known_findings.json: never written at run time."""

    def __init__(self, path=None):
        path = path or os.path.join(VERIF, "known_findings.json")
        self.entries = []
        self.fixed = []
        if os.path.exists(path):
            with open(path) as fp:
                data = json.load(fp)
            self.entries = data.get("findings", [])
            self.fixed = data.get("fixed", [])

    def lookup(self, prop, key):
        for e in self.entries:
            if e["property"] != prop:
                continue
            if e.get("key") == key:
                return e
            if e.get("key_regex") and re.fullmatch(e["key_regex"], key):
                return e
        return None


class Ctx(object):
    """Per-run context handed to a check's run(ctx)."""

    def __init__(self, prop, tier, repo, seed, replay=None):
        self.prop = prop
        self.tier = tier
        self.repo = repo
        self.seed = seed
        self.replay = replay
        self.rng = random.Random(seed)
        self.t0 = time.time()
        self.findings = Findings()
        self.violations = []  # (key, what, replay path)
        self.known_hit = {}  # key -> count
        self.cov = {
            "states": 0,
            "transitions": 0,
            "traces_validated_against_impl": 0,
            "samples": [],
            "evaluations": 0,
            "distinct_nontrivial": 0,
            "rule": "",
            "exhaustive": True,
            "bounds": {},
            "caps_hit": [],
            "outcomes": {},
            "parts": {},
        }
        self.assumptions = []
        self._distinct = set()
        self._scratch = None
        self.max_violation_lines = int(os.environ.get("VT_MAXV", "12"))
        self.workers = int(os.environ.get("VT_WORKERS", "0")) or min(16, os.cpu_count() or 4)

    # ---- scratch ----------------------------------------------------
    @property
    def scratch(self):
        if self._scratch is None:
            base = os.environ.get("VT_SCRATCH_BASE") or tempfile.gettempdir()
            self._scratch = tempfile.mkdtemp(prefix="vt-%s-" % self.prop.lower(), dir=base)
            atexit.register(shutil.rmtree, self._scratch, True)
        return self._scratch

    def subdir(self, name):
        d = os.path.join(self.scratch, name)
        os.makedirs(d, exist_ok=True)
        return d

    # ---- counting ---------------------------------------------------
    def sample(self, obj, limit=8):
        if len(self.cov["samples"]) < limit:
            self.cov["samples"].append(obj)

    def outcome(self, name, n=1):
        self.cov["outcomes"][name] = self.cov["outcomes"].get(name, 0) + n

    def part(self, name, **kw):
        d = self.cov["parts"].setdefault(name, {})
        for k, v in kw.items():
            if isinstance(v, (int, float)) and not isinstance(v, bool) and isinstance(d.get(k), (int, float)):
                d[k] += v
            else:
                d[k] = v

    def count(self, states=0, transitions=0, validated=0, evaluations=None):
        self.cov["states"] += states
        self.cov["transitions"] += transitions
        self.cov["traces_validated_against_impl"] += validated
        self.cov["evaluations"] += transitions if evaluations is None else evaluations

    def nontrivial(self, key):
        """Record a distinct non-trivial case (hashable key)."""
        if not isinstance(key, (str, bytes)):
            key = repr(key)
        if isinstance(key, str):
            key = key.encode("utf-8", "replace")
        self._distinct.add(hashlib.blake2b(key, digest_size=8).digest())

    def nontrivial_n(self, n):
        """Add n cases that are distinct by construction (enumeration without repeats)."""
        self.cov["distinct_nontrivial"] += n

    # ---- violations -------------------------------------------------
    def violation(self, key, what, payload=None):
        """Report a property violation.

        key identifies the specific failing input / call site; a key listed in
        known_findings.json is a KNOWN-FINDING, anything else a VIOLATION.
        """
        e = self.findings.lookup(self.prop, key)
        if e is not None:
            fid = e.get("key") or e.get("key_regex")
            self.known_hit[fid] = self.known_hit.get(fid, 0) + 1
            return False
        for k, _, _ in self.violations:
            if k == key:
                return True
        path = None
        if len(self.violations) < self.max_violation_lines:
            rdir = os.path.join(VERIF, "replays")
            os.makedirs(rdir, exist_ok=True)
            h = hashlib.blake2b(key.encode("utf-8", "replace"), digest_size=5).hexdigest()
            path = os.path.join(rdir, "%s-%s.json" % (self.prop, h))
            with open(path, "w") as fp:
                json.dump(
                    {"property": self.prop, "key": key, "what": what, "payload": payload},
                    fp,
                    indent=1,
                    default=repr,
                )
        self.violations.append((key, what, path))
        return True

    # ---- finish -----------------------------------------------------
    def finish(self):
        cov = self.cov
        cov["distinct_nontrivial"] += len(self._distinct)
        cov["known_findings_hit"] = {k: n for k, n in sorted(self.known_hit.items())}
        if not cov["samples"]:
            cov["samples"] = ["(no case recorded)"]
        ev = {
            "property_id": self.prop,
            "tier": self.tier,
            "seed": self.seed,
            "level": "model_checking",
            "coverage": cov,
            "assumptions": self.assumptions,
            "wall_s": round(time.time() - self.t0, 2),
            "violations": len(self.violations),
            "repo": self.repo,
        }
        if not self.replay and not os.environ.get("VT_NO_EVIDENCE"):
            edir = os.path.join(VERIF, "evidence")
            os.makedirs(edir, exist_ok=True)
            tmp = os.path.join(edir, ".%s.json.tmp" % self.prop)
            with open(tmp, "w") as fp:
                json.dump(ev, fp, indent=1, sort_keys=True, default=repr)
                fp.write("\n")
            os.replace(tmp, os.path.join(edir, "%s.json" % self.prop))
        for e in self.findings.entries:
            fid = e.get("key") or e.get("key_regex")
            if e["property"] != self.prop:
                continue
            if fid in self.known_hit:
                print("KNOWN-FINDING: property=%s %s [%d cases]" % (self.prop, e["what"], self.known_hit[fid]))
            elif e.get("tier", "quick") in ("quick", self.tier) and not self.replay:
                # A listed finding that no longer reproduces is only reported, never an alarm.
                print("note: listed finding not reproduced in this run: %s" % fid)
        shown = 0
        for key, what, path in self.violations:
            if path is None:
                continue
            print("VIOLATION property=%s replay=%s" % (self.prop, path))
            print("  key: %s" % key)
            print("  what: %s" % what[:2000])
            shown += 1
        if len(self.violations) > shown:
            print("  (+%d further distinct violations not written out)" % (len(self.violations) - shown))
        print(
            "%s %s: states=%d transitions=%d validated=%d distinct_nontrivial=%d known=%d violations=%d wall=%.1fs"
            % (
                self.prop,
                self.tier,
                cov["states"],
                cov["transitions"],
                cov["traces_validated_against_impl"],
                cov["distinct_nontrivial"],
                len(self.known_hit),
                len(self.violations),
                time.time() - self.t0,
            )
        )
        return 1 if self.violations else 0


def site_of(tb_frames, repo):
    """Innermost traceback frame inside <repo>/shroud as 'file:function'."""
    for fname, lineno, func in reversed(tb_frames):
        if os.sep + "shroud" + os.sep in fname:
            return "%s:%s" % (os.path.basename(fname), func)
    if tb_frames:
        fname, lineno, func = tb_frames[-1]
        return "%s:%s" % (os.path.basename(fname), func)
    return "?"
