"""The upstream regression corpus: every configuration listed in regression/do-test.py."""
from __future__ import annotations

import ast
import os

from . import isolate


class TestDesc(object):
    def __init__(self, name, yaml=None, cmdline=None):
        self.name = name
        self.yaml = (yaml or name) + ".yaml"
        self.cmdline = cmdline or []


def configs(repo):
    """[(name, yaml basename, [cmdline])] read from the repo's own do-test.py."""
    path = os.path.join(repo, "regression", "do-test.py")
    with open(path) as fp:
        tree = ast.parse(fp.read())
    for node in ast.walk(tree):
        if isinstance(node, ast.Assign) and any(
            isinstance(t, ast.Name) and t.id == "availTests" for t in node.targets
        ):
            code = compile(ast.Expression(node.value), path, "eval")
            lst = eval(code, {"TestDesc": TestDesc})
            return [(t.name, t.yaml, list(t.cmdline)) for t in lst]
    raise RuntimeError("availTests not found in %s" % path)


def argv_for(repo, cfg, outdir, extra=()):
    name, yaml, cmdline = cfg
    indir = os.path.join(repo, "regression", "input")
    return (
        ["--path", indir, "--logdir", outdir, "--outdir", outdir, "--option", "debug_testsuite=true", "--nowrite-version"]
        + list(cmdline)
        + list(extra)
        + [os.path.join(indir, yaml)]
    )


def generate(repo, cfg, outdir, extra=(), cwd=None):
    os.makedirs(outdir, exist_ok=True)
    return isolate.shroud_cli(argv_for(repo, cfg, outdir, extra), cwd=cwd or outdir)


def generate_all(repo, base, workers=16, extra=(), only=None):
    """Generate every corpus configuration under base/<name>; returns {name: (cfg, outdir, Result)}."""
    cfgs = [c for c in configs(repo) if only is None or c[0] in only]

    def one(cfg):
        out = os.path.join(base, cfg[0])
        return (cfg[0], cfg, out, generate(repo, cfg, out, extra))

    res = isolate.pmap(one, cfgs, workers)
    return {n: (c, o, r) for n, c, o, r in res}
