"""Derivations of the C/C++ declarator grammar Shroud documents.

Every declaration text is produced from a derivation tree (class D), so what the text means
is known by construction: specifier words, cv placement, pointer chain, name, array extents,
parameter list, attributes, default value.  Used by C09 (truth for the parser, renderings
checked by g++) and C17 (valid declarations must be accepted; mutation base set).
"""
from __future__ import annotations

import itertools

# (specifier words as typed, typemap name Shroud must resolve, "must"|"may" be accepted)
NATIVE_TYPES = [
    (("int",), "int", "must"),
    (("long",), "long", "must"),
    (("short",), "short", "must"),
    (("long", "long"), "long_long", "must"),
    (("unsigned",), "unsigned_int", "must"),
    (("unsigned", "int"), "unsigned_int", "must"),
    (("unsigned", "long"), "unsigned_long", "must"),
    (("unsigned", "short"), "unsigned_short", "must"),
    (("unsigned", "long", "long"), "unsigned_long_long", "must"),
    (("long", "int"), "long", "must"),
    (("short", "int"), "short", "must"),
    (("long", "long", "int"), "long_long", "must"),
    (("unsigned", "long", "int"), "unsigned_long", "must"),
    (("float",), "float", "must"),
    (("double",), "double", "must"),
    (("char",), "char", "must"),
    (("bool",), "bool", "must"),
    (("size_t",), "size_t", "must"),
    (("int32_t",), "int32_t", "must"),
    (("int64_t",), "int64_t", "must"),
    (("uint8_t",), "uint8_t", "must"),
    (("int8_t",), "int8_t", "must"),
    (("int16_t",), "int16_t", "must"),
    (("uint16_t",), "uint16_t", "must"),
    (("uint32_t",), "uint32_t", "must"),
    (("uint64_t",), "uint64_t", "must"),
]
# permutations a C++ compiler accepts; Shroud may accept them (then it must agree) or diagnose
PERMUTED_TYPES = [
    (("int", "long"), "long", "may"),
    (("long", "unsigned"), "unsigned_long", "may"),
    (("int", "unsigned"), "unsigned_int", "may"),
    (("long", "unsigned", "long"), "unsigned_long_long", "may"),
    (("int", "short"), "short", "may"),
    (("long", "int", "long"), "long_long", "may"),
    (("signed", "int"), "int", "may"),
    (("signed",), "int", "may"),
    (("unsigned", "char"), "unsigned_char", "may"),
    (("long", "double"), "long_double", "may"),
]
CXX_TYPES = [
    (("std::string",), "std::string", "must"),
    (("std::vector<int>",), "std::vector", "must"),
    (("std::vector<double>",), "std::vector", "must"),
    (("Cls",), "Cls", "must"),
    (("ns::Cls2",), "ns::Cls2", "must"),
    (("Index",), "Index", "must"),
    (("ns::Offset",), "ns::Offset", "must"),
]
# C99 complex: both specifier orders name the same type (checked against the recorded typemap only: not C++ spellings)
COMPLEX_TYPES = [
    (("float", "complex"), "float_complex", "must"),
    (("double", "complex"), "double_complex", "must"),
    (("complex", "float"), "float_complex", "may"),
    (("complex", "double"), "double_complex", "may"),
]
VOID = (("void",), "void", "must")

# pointer chains: list of (symbol, const, volatile)
PTR_CHAINS_1 = [
    [],
    [("*", False, False)],
    [("&", False, False)],
    [("*", True, False)],
]
PTR_CHAINS_2 = PTR_CHAINS_1 + [
    [("*", False, False), ("*", False, False)],
    [("*", False, False), ("&", False, False)],
    [("*", True, False), ("*", False, False)],
    [("*", False, False), ("*", True, False)],
    [("*", True, False), ("*", True, False)],
    [("*", False, True)],
    [("*", True, True)],
]
PTR_CHAINS_3 = PTR_CHAINS_2 + [
    [("*", False, False), ("*", False, False), ("*", False, False)],
    [("*", True, False), ("*", False, False), ("&", False, False)],
    [("*", False, False), ("*", True, False), ("*", False, False)],
]


class D(object):
    """One derivation."""

    def __init__(self, spec, tname, must="must", cpre=False, cpost=False, vpre=False, ptrs=(), name=None,
                 arrays=(), params=None, func_const=False, funcptr=False, attrs=(), init=None, storage=()):
        self.spec = tuple(spec)
        self.tname = tname
        self.must = must
        self.cpre = cpre
        self.cpost = cpost
        self.vpre = vpre
        self.ptrs = [tuple(p) for p in ptrs]
        self.name = name
        self.arrays = list(arrays)
        self.params = params
        self.func_const = func_const
        self.funcptr = funcptr
        self.attrs = list(attrs)
        self.init = init
        self.storage = tuple(storage)

    # --- truth
    @property
    def const(self):
        return self.cpre or self.cpost

    def text(self, name=-1, with_attrs=True, with_init=True):
        """The declaration as a user would write it."""
        nm = self.name if name == -1 else name
        out = []
        out.extend(self.storage)
        if self.cpre:
            out.append("const")
        if self.vpre:
            out.append("volatile")
        out.extend(self.spec)
        if self.cpost:
            out.append("const")
        pt = []
        for sym, c, v in self.ptrs:
            pt.append(sym)
            if c:
                pt.append("const")
            if v:
                pt.append("volatile")
        s = " ".join(out)
        decl = " ".join(pt)
        if self.funcptr:
            # T <ptrs of the result> (*name)(params)
            decl = (decl + " " if decl else "") + "(*%s)" % (nm or "")
        elif nm:
            decl = (decl + " " if decl else "") + nm
        if decl:
            s += " " + decl
        if self.params is not None:
            s += "(" + ", ".join(p.text(with_attrs=with_attrs, with_init=with_init) for p in self.params) + ")"
            if self.func_const:
                s += " const"
        for a in self.arrays:
            s += "[%s]" % a
        if with_attrs:
            for at in self.attrs:
                k, v = at[0], at[1]
                if len(at) > 2:
                    s += " +%s=%s" % (k, v)  # the documented  +attr=value  spelling
                else:
                    s += " +%s" % k if v is True else " +%s(%s)" % (k, v)
        if with_init and self.init is not None:
            s += " = %s" % self.init
        return s

    def cxx_text(self, name):
        """Compilable C++ (no attributes, no default value) with the given name."""
        return self.text(name=name, with_attrs=False, with_init=False)

    def is_function(self):
        return self.params is not None and not self.funcptr

    def depth(self):
        d = len(self.ptrs) + len(self.arrays)
        if self.params:
            d = max([d] + [1 + p.depth() for p in self.params])
        return d

    def __repr__(self):
        return "D(%r)" % self.text()


def types(level):
    t = [VOID] + NATIVE_TYPES[:6] + CXX_TYPES[:2] + CXX_TYPES[3:4] + COMPLEX_TYPES if level == 1 else [VOID] + NATIVE_TYPES + CXX_TYPES + COMPLEX_TYPES
    if level >= 3:
        t = t + PERMUTED_TYPES
    return t


def cv_variants(level):
    # (const before, const after, volatile before)
    v = [(False, False, False), (True, False, False), (False, True, False)]
    if level >= 2:
        v += [(False, False, True), (True, False, True)]
    return v


def variables(level, named=True):
    """Variable / parameter declarations (no function)."""
    chains = {1: PTR_CHAINS_1, 2: PTR_CHAINS_3, 3: PTR_CHAINS_3}[level]
    arr = [[]] if level == 1 else [[], [3], [3, 4]]
    names = ["a"] if (named and level < 3) else ["a", None]
    for (spec, tname, must), (cpre, cpost, vpre), ptrs, arrays, name in itertools.product(
            types(level), cv_variants(level), chains, arr, names):
        if tname == "void" and not any(p[0] == "*" for p in ptrs):
            continue  # a void object / void reference is not a declaration
        if arrays and (name is None or any(p[0] == "&" for p in ptrs)):
            continue  # arrays of references are ill-formed; abstract arrays not in the grammar
        if sum(1 for p in ptrs if p[0] == "&") and ptrs[-1][0] != "&":
            continue  # pointer to reference is ill-formed
        yield D(spec, tname, must, cpre, cpost, vpre, ptrs, name, arrays)


def param_pool(level):
    """A small pool of parameters (named and abstract) used inside functions."""
    pool = [
        D(("int",), "int", name="n"),
        D(("double",), "double", ptrs=[("*", False, False)], name="v"),
        D(("std::string",), "std::string", cpre=True, ptrs=[("&", False, False)], name="s"),
        D(("int",), "int"),  # abstract
        D(("char",), "char", cpre=True, ptrs=[("*", False, False)]),  # abstract pointer
        D(("void",), "void", ptrs=[("*", False, False)]),  # abstract void *: not the same as an empty list
        D(("void",), "void", cpre=True, ptrs=[("*", False, False)], name="p"),
    ]
    if level >= 2:
        pool += [
            D(("Cls",), "Cls", ptrs=[("*", False, False)], name="c"),
            D(("std::vector<int>",), "std::vector", ptrs=[("&", False, False)], name="vec"),
            D(("long", "long"), "long_long", cpost=True, ptrs=[("*", True, False)], name="q"),
            D(("double",), "double", name="arr", arrays=[3]),
            D(("int",), "int", ptrs=[("*", False, False), ("*", False, False)], name="pp"),
        ]
    return pool


def functions(level):
    """Function declarations: result x parameter lists of length 0..2 (x const for methods)."""
    pool = param_pool(level)
    plists = [[]] + [[p] for p in pool]
    first = pool[:3] if level < 3 else pool
    plists += [[a, b] for a in first for b in pool if (a.name or "_1") != (b.name or "_2")]
    chains = PTR_CHAINS_1 if level == 1 else (PTR_CHAINS_2[:8] if level == 2 else PTR_CHAINS_2)
    results = []
    for (spec, tname, must), (cpre, cpost, vpre), ptrs in itertools.product(types(min(level, 2)), cv_variants(1), chains):
        if tname == "void" and (ptrs and ptrs[0][0] == "&"):
            continue
        if sum(1 for p in ptrs if p[0] == "&") and ptrs[-1][0] != "&":
            continue
        if tname == "void" and not ptrs and (cpre or cpost):
            continue
        results.append((spec, tname, must, cpre, cpost, vpre, ptrs))
    for (spec, tname, must, cpre, cpost, vpre, ptrs), params in itertools.product(results, plists):
        yield D(spec, tname, must, cpre, cpost, vpre, ptrs, "f", params=params)
    # const methods on a subset
    for (spec, tname, must, cpre, cpost, vpre, ptrs) in results[:: max(1, len(results) // 12)]:
        yield D(spec, tname, must, cpre, cpost, vpre, ptrs, "f", params=[pool[0]], func_const=True)


def function_pointers(level):
    pool = param_pool(1)
    for (spec, tname, must), ptrs, params in itertools.product(
            [VOID] + NATIVE_TYPES[:3] + [NATIVE_TYPES[14]], [[], [("*", False, False)]],
            [[], [pool[3]], [pool[3], pool[4]], [pool[0], pool[1]], [pool[5]], [pool[5], pool[3]], [pool[6]],
             [D(("void",), "void", ptrs=[("*", False, False), ("*", False, False)])], [D(("void",), "void", cpre=True, ptrs=[("*", False, False)])]]):
        yield D(spec, tname, must, ptrs=ptrs, name="fp", params=params, funcptr=True)


ATTRS = [
    ("intent", "in"), ("intent", "out"), ("intent", "inout"), ("rank", "1"), ("dimension", "n"),
    ("dimension", "n,m+1"), ("len", "30"), ("value", True), ("hidden", True), ("implied", "size(v)"),
    ("deref", "allocatable"), ("owner", "caller"), ("name", "other"), ("charlen", "20"), ("readonly", True),
]


# the  +attr=value  spelling (input.rst: "+attr=value" is the same as "+attr(value)"); numerals arrive as integers
ATTRS_EQ = [("rank", "1", "="), ("rank", "2", "="), ("rank", "0", "="), ("len", "30", "="), ("len", "1", "="),
            ("dimension", "n", "="), ("owner", "caller", "="), ("name", "other", "="), ("intent", "in", "=")]


def with_attrs_and_defaults(level):
    """Declarations carrying attributes (one or two) and default values."""
    base = [
        D(("int",), "int", ptrs=[("*", False, False)], name="a"),
        D(("double",), "double", name="a"),
        D(("char",), "char", cpre=True, ptrs=[("*", False, False)], name="a"),
        D(("std::vector<int>",), "std::vector", ptrs=[("&", False, False)], name="a"),
    ]
    for b in base:
        for at in ATTRS + ATTRS_EQ:
            yield D(b.spec, b.tname, b.must, b.cpre, b.cpost, b.vpre, b.ptrs, b.name, attrs=[at])
        if level >= 2:
            for a1, a2 in itertools.combinations(ATTRS[:8], 2):
                if a1[0] != a2[0]:
                    yield D(b.spec, b.tname, b.must, b.cpre, b.cpost, b.vpre, b.ptrs, b.name, attrs=[a1, a2])
    # function with attributes on the function and on arguments; defaults
    for at in ATTRS[:8]:
        yield D(("int",), "int", ptrs=[("*", False, False)], name="f",
                params=[D(("int",), "int", name="n", attrs=[at])], attrs=[("owner", "caller")])
    for init, spec, tname in (("1", ("int",), "int"), ("1.5", ("double",), "double"), ("true", ("bool",), "bool"),
                              ("NAME", ("int",), "int"), ('"abc"', ("std::string",), "std::string"), ("'c'", ("char",), "char"),
                              ("0", ("int",), "int"), ("010", ("int",), "int"), ("0777", ("long",), "long"), ("00", ("int",), "int"), ("0.0", ("double",), "double")):
        yield D(spec, tname, name="a", init=init)
        yield D(("void",), "void", name="f", params=[D(("int",), "int", name="n"), D(spec, tname, name="a", init=init)])


ARRAY_EXTENTS = ["2*3", "(2+1)*2", "48/(2*3)", "2*(8/2)", "7-(3-1)", "2+3*4", "(2+3)*4", "16/2/2", "16/(2/2)", "2*3+1", "9-2-3", "9-(2-3)", "(7)",
                 "8- -1-1", "8 - -2 + 1", "9-+2-3", "2*-3+10", "10+-2*3", "-(-4)", "7 - -(2) - 1", "20/-2/-5", "6- -2*2", "12 / +3 / 2"]


def array_expressions(level):
    """Array extents written as expressions: the extent recorded and rendered has the value the compiler computes."""
    for t, tn in ((("int",), "int"), (("double",), "double")):
        for e in ARRAY_EXTENTS:
            yield D(t, tn, name="a", arrays=[e])
        if level >= 2:
            for e1, e2 in itertools.product(ARRAY_EXTENTS[:6], repeat=2):
                yield D(t, tn, name="a", arrays=[e1, e2])


def all_decls(level):
    """The depth-<level> set: (kind, D)."""
    for d in array_expressions(level):
        yield "variable", d
    for d in variables(level):
        yield "variable", d
    for d in functions(level):
        yield "function", d
    for d in function_pointers(level):
        yield "funcptr", d
    for d in with_attrs_and_defaults(level):
        yield "attrs", d


CXX_PRELUDE = """\
#include <string>
#include <vector>
#include <cstddef>
#include <cstdint>
#include <type_traits>
struct Cls { int x; };
namespace ns { struct Cls2 { int y; }; }
typedef int Index;
namespace ns { typedef long Offset; }
struct Pt { int x; double y; };
"""
