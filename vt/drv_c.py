"""C front end: a C driver that includes only the generated headers (C02)."""
from __future__ import annotations

from . import atoms as A
from . import drv_f

C_PRELUDE = r"""
#include <stdio.h>
#include <string.h>
#include <stdlib.h>
#include <stdbool.h>
#include <stdint.h>
#include <stddef.h>
static void obs_i(long long v) { printf(" %lld", v); }
static void obs_d(double v) { long long b; memcpy(&b, &v, 8); printf(" %lld", b); }
static void obs_f(float v) { int b; memcpy(&b, &v, 4); printf(" %d", b); }
static void obs_z(const char *s) { if (!s) printf(" NULL"); else printf(" %d:[%s]", (int) strlen(s), s); }
"""


def supported(f):
    """Functions whose atoms have a plain (non-bufferify) C API."""
    for a, _ in f.args:
        if isinstance(a, A.Vec) or not getattr(a, "c_api", True):
            return False
    if isinstance(f.res, A.VecRes):
        return False
    if isinstance(f.res, A.StrRes) and f.res.form in ("val", "cval", "cptr_caller"):
        return False  # the plain C function returns c_str() of an object the caller cannot release / that is gone
    if isinstance(f.res, A.ArrRes) and f.res.deref == "allocatable":
        return True
    return True


def obs_scalar(t, e):
    return "obs_i((long long)(%s));" % e if t.cls == "int" else ("obs_d(%s);" % e if t.cls == "real8" else "obs_f(%s);" % e)


def obs_arr(t, e, n):
    fmt = "obs_i((long long)(%s[vt_k]))" if t.cls == "int" else ("obs_d(%s[vt_k])" if t.cls == "real8" else "obs_f(%s[vt_k])")
    inner = {"int": 'printf("%%lld", (long long) %s[vt_k]);', "real8": "{ long long b; double x = %s[vt_k]; memcpy(&b, &x, 8); printf(\"%%lld\", b); }",
             "real4": "{ int b; float x = %s[vt_k]; memcpy(&b, &x, 4); printf(\"%%d\", b); }"}[t.cls] % e
    return 'printf(" %%d:{", (int)(%s)); for (int vt_k = 0; vt_k < (int)(%s); vt_k++) { if (vt_k) printf(","); %s } printf("}");' % (n, n, inner)


def arr_init(t, vals, name):
    if not vals:
        return "%s %s[1];" % (t.cname, name)
    return "%s %s[%d] = {%s};" % (t.cname, name, len(vals), ", ".join(A.clit(t, v) for v in vals))


def cstr(s):
    return '"' + s.replace("\\", "\\\\").replace('"', '\\"') + '"'


def arg_code(atom, n, v, prefix):
    """-> (setup statements, [actual argument expressions], post statements)"""
    z = "zz_" + n
    if isinstance(atom, A.Val):
        return [], [A.clit(atom.t, v)], []
    if isinstance(atom, A.BoolVal):
        return [], ["true" if v else "false"], []
    if isinstance(atom, A.CharVal):
        return [], ["'%s'" % v], []
    if isinstance(atom, A.Ptr):
        s = ["%s %s = %s;" % (atom.t.cname, z, A.clit(atom.t, v) if atom.intent != "out" else "0")]
        p = [obs_scalar(atom.t, z)] if atom.intent != "in" else []
        return s, ["&" + z], p
    if isinstance(atom, A.BoolPtr):
        s = ["bool %s = %s;" % (z, "true" if v else "false")]
        return s, ["&" + z], ["obs_i(%s ? 1 : 0);" % z]
    if isinstance(atom, A.Arr):
        p = [obs_arr(atom.t, z, len(v))] if atom.intent == "inout" else []
        return [arr_init(atom.t, v, z)], [z, "%d" % len(v)], p
    if isinstance(atom, A.ArrOut):
        return ["%s %s[%d];" % (atom.t.cname, z, max(v, 1))], [z, "%d" % v], [obs_arr(atom.t, z, v)]
    if isinstance(atom, (A.CStrIn, A.StrIn)):
        return [], [cstr(v)], []
    if isinstance(atom, A.CStrOut):
        return ["char %s[64];" % z, "memset(%s, 'z', 63); %s[63] = 0;" % (z, z)], [z], ["obs_z(%s);" % z]
    if isinstance(atom, A.CStrInout):
        return ["char %s[64];" % z, "strcpy(%s, %s);" % (z, cstr(v))], [z], ["obs_z(%s);" % z]
    if isinstance(atom, A.StrOut):
        if atom.intent == "out":
            return ["char %s[64];" % z, "memset(%s, 'z', 63); %s[63] = 0;" % (z, z)], [z], ["obs_z(%s);" % z]
        text, ln = v
        return ["char %s[64];" % z, "strcpy(%s, %s);" % (z, cstr(text))], [z], ["obs_z(%s);" % z]
    if isinstance(atom, A.EnumVal):
        return [], ["%s%s" % (prefix, v[0])], []
    if isinstance(atom, A.ClsArg):
        return [], ["&zz_obj%d" % v], []
    if isinstance(atom, A.PtrPtrOut):
        cq = "const " if getattr(atom, "const", False) else ""
        if atom.form == "fixed":
            return ["%s%s *%s = NULL;" % (cq, atom.t.cname, z)], ["&" + z], [obs_arr(atom.t, z, 3)]
        return ["%s%s *%s = NULL; int %s_n = -1;" % (cq, atom.t.cname, z, z)], ["&" + z, "&%s_n" % z], [obs_arr(atom.t, z, "%s_n" % z)]
    if isinstance(atom, A.PtrPtrRaw):
        return ["%s *%s = NULL;" % (atom.t.cname, z)], ["&" + z], [obs_arr(atom.t, z, 4)]
    if isinstance(atom, A.ArrOutAlloc):
        return ["%s %s[%d];" % (atom.t.cname, z, max(v, 1))], ["%d" % v, z], [obs_arr(atom.t, z, v)]
    if isinstance(atom, A.VoidPP):
        if atom.form == "in":
            return ["int %s_t = %d; void *%s = &%s_t;" % (z, v, z, z)], ["&" + z], []
        return ["void *%s = NULL;" % z], ["&" + z], ["obs_i(*(int *) %s);" % z]
    if isinstance(atom, A.PtrPtrIn):
        lit = lambda x: A.clit(atom.t, x)
        return ["%s %s_r1[2] = {%s, %s}, %s_r2[2] = {%s, %s}; %s *%s[2] = {%s_r1, %s_r2};" % (
            atom.t.cname, z, lit(v[0]), lit(v[1]), z, lit(v[2]), lit(v[3]), atom.t.cname, z, z, z)], [z], []
    if isinstance(atom, A.VoidPtr):
        return ["int %s = %d;" % (z, v)], ["&" + z], ["obs_i(%s);" % z]
    if isinstance(atom, A.StrArrIn):
        ln, texts = v
        return ["char *%s[%d] = {%s};" % (z, len(texts), ", ".join(cstr(t.rstrip(" ")) for t in texts))], [z, "%d" % len(texts)], []
    if isinstance(atom, A.StructArg):
        ti, td = A.NATIVE["int"], A.NATIVE["double"]
        if atom.intent == "out":
            s = ["%spt %s; memset(&%s, 0x55, sizeof %s);" % (prefix, z, z, z)]
        else:
            s = ["%spt %s; %s.i = %s; %s.d = %s;" % (prefix, z, z, A.clit(ti, v[0]), z, A.clit(td, v[1]))]
        p = [obs_scalar(ti, z + ".i"), obs_scalar(td, z + ".d")] if atom.intent != "in" else []
        return s, [z if atom.form == "val" else "&" + z], p
    raise NotImplementedError(atom.id)


def observe_c(atom, v):
    """What the C caller sees (no Fortran padding / trimming)."""
    if isinstance(atom, A.CStrOut):
        return [A.rs(atom.TEXT)]
    if isinstance(atom, A.CStrInout):
        t = (v[0].upper() + v[1:]) if v and "a" <= v[0] <= "z" else v
        return [A.rs(t)]
    if isinstance(atom, A.StrOut):
        if atom.intent == "out":
            return [A.rs(atom.TEXT)]
        return [A.rs(v[0] + "+x")]
    return atom.observe(v)


def recv_c(atom, n, v):
    if isinstance(atom, A.CStrInout):
        return " %s=%s" % (n, A.rs(v))
    if isinstance(atom, A.StrOut) and atom.intent == "inout":
        return " %s=%s" % (n, A.rs(v[0]))
    if hasattr(atom, "recv_exact"):
        return atom.recv_exact(n, v)
    return atom.recv(n, v)


STRUCT_PREFIX = [""]  # set by driver(): the C name of the struct type is <prefix>pt


def res_code(res, call, extra):
    if isinstance(res, A.VoidRes):
        return [call + ";"]
    if isinstance(res, A.NatRes):
        return ["{ %s zz_r = %s; %s }" % (res.t.cname, call, obs_scalar(res.t, "zz_r"))]
    if isinstance(res, A.BoolRes):
        return ["{ bool zz_r = %s; obs_i(zz_r ? 1 : 0); }" % call]
    if isinstance(res, A.CharRes):
        return ["{ char zz_r = %s; obs_i((long long)(unsigned char) zz_r); }" % call]
    if isinstance(res, (A.CStrRes, A.StrRes)):
        return ["{ const char *zz_r = %s; obs_z(zz_r); }" % call]
    if isinstance(res, A.PtrRes) and res.deref == "scalar":
        return ["{ %s zz_r = %s; %s }" % (res.t.cname, call, obs_scalar(res.t, "zz_r"))]
    if isinstance(res, A.PtrRes):
        return ["{ %s *zz_r = %s; %s }" % (res.t.cname, call, obs_scalar(res.t, "*zz_r"))]
    if isinstance(res, A.VoidPtrRes):
        return ["{ void *zz_r = %s; obs_i(*(int *) zz_r); }" % call]
    if isinstance(res, A.ArrRes2):
        return ["{ %s *zz_r = %s; obs_i(%d); obs_i(2); %s }" % (res.t.cname, call, extra, obs_arr(res.t, "zz_r", 2 * extra))]
    if isinstance(res, A.ArrRes):
        return ["{ %s *zz_r = %s; %s }" % (res.t.cname, call, obs_arr(res.t, "zz_r", extra))]
    if isinstance(res, A.EnumRes):
        return ["{ int zz_r = %s; obs_i(zz_r); }" % call]
    if isinstance(res, A.StructRes):
        if res.form == "val":
            return ["{ %spt zz_r = %s; obs_i(zz_r.i); obs_d(zz_r.d); }" % (STRUCT_PREFIX[0], call)]
        return ["{ %spt *zz_r = %s; obs_i(zz_r->i); obs_d(zz_r->d); }" % (STRUCT_PREFIX[0], call)]
    raise NotImplementedError(res.id)


def observe_res_c(res, extra):
    if isinstance(res, A.CStrRes):
        return [A.rs(res.text)]
    return res.observe(extra)


def expected(func, plan):
    combo, ex, omit = plan
    nargs = len(func.args)
    recv = "RECV " + func.name
    obs = []
    for i, ((atom, n), v) in enumerate(zip(func.args, combo)):
        if omit and i >= nargs - omit:
            v = func.defaults[n][1]
            recv += atom.recv(n, v)
        else:
            recv += recv_c(atom, n, v)
    for pt, pn in func.res.extra_params:
        recv += " %s=%d" % (pn, ex)
    for (atom, n), v in list(zip(func.args, combo))[: nargs - omit if omit else nargs]:
        obs += observe_c(atom, v)
    obs = observe_res_c(func.res, ex) + obs
    return recv, "OBS " + func.name + "".join(" " + o for o in obs)


def c_name(func, namer, omit=0, ndef=0):
    """namer(underscore_name, function_suffix) -> C function name"""
    suffix = ""
    if ndef:
        suffix = "_%d" % (ndef - omit)
    return namer(func.name, suffix)


def driver(lib, plans_by_func, headers, prefix, namer, extra_main=""):
    STRUCT_PREFIX[0] = prefix
    out = [C_PRELUDE] + ['#include "%s"' % h for h in headers] + ["int main(void) {"]
    if "class" in lib.needs():
        ctor = namer("ctor", "", scope="Cls_")
        out += ["  %sCls zz_obj11, zz_obj22;" % prefix, "  %s(11, &zz_obj11);" % ctor, "  %s(22, &zz_obj22);" % ctor]
    exp_recv, exp_obs = [], []
    for f in lib.funcs:
        if not supported(f):
            continue
        for plan in plans_by_func[f.name]:
            combo, ex, omit = plan
            setup, actual, post = [], [], []
            nargs = len(f.args)
            for i, ((atom, n), v) in enumerate(zip(f.args, combo)):
                if omit and i >= nargs - omit:
                    continue
                s, a, p = arg_code(atom, n, v, prefix)
                setup += s
                actual += a
                post += p
            if f.res.extra_params:
                actual.append("%d" % ex)
            call = "%s(%s)" % (c_name(f, namer, omit, len(f.defaults)), ", ".join(actual))
            out.append("  {")
            out += ["    " + x for x in setup]
            out.append('    printf("OBS %s");' % f.name)
            out += ["    " + x for x in res_code(f.res, call, ex)]
            out += ["    " + x for x in post]
            out.append('    printf("\\n");')
            out.append("  }")
            r, o = expected(f, plan)
            exp_recv.append(r)
            exp_obs.append(o)
    out.append(extra_main)
    out += ["  return 0;", "}"]
    return "\n".join(out) + "\n", exp_recv, exp_obs
