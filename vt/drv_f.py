"""Fortran front end: driver generation and the caller-side reference model (C01, C10)."""
from __future__ import annotations

import itertools

from . import atoms as A

OBS_MODULE = r"""
module vt_obs
  use iso_c_binding
  implicit none
contains
  subroutine obs_begin(name)
    character(len=*), intent(in) :: name
    write(*,'(A)',advance='no') 'OBS '//name
  end subroutine
  subroutine obs_end()
    write(*,'(A)') ''
  end subroutine
  subroutine obs_i(v)
    integer(C_LONG_LONG), intent(in) :: v
    write(*,'(1X,I0)',advance='no') v
  end subroutine
  subroutine obs_d(v)
    real(C_DOUBLE), intent(in) :: v
    write(*,'(1X,I0)',advance='no') transfer(v, 0_C_INT64_T)
  end subroutine
  subroutine obs_f(v)
    real(C_FLOAT), intent(in) :: v
    write(*,'(1X,I0)',advance='no') transfer(v, 0_C_INT32_T)
  end subroutine
  subroutine obs_l(v)
    logical, intent(in) :: v
    if (v) then
      write(*,'(1X,A)',advance='no') '1'
    else
      write(*,'(1X,A)',advance='no') '0'
    end if
  end subroutine
  subroutine obs_s(v)
    character(len=*), intent(in) :: v
    write(*,'(1X,I0,A,A,A)',advance='no') len(v), ':[', v, ']'
  end subroutine
  subroutine obs_ia(v)
    integer(C_LONG_LONG), intent(in) :: v(:)
    integer :: k
    write(*,'(1X,I0,A)',advance='no') size(v), ':{'
    do k = 1, size(v)
      if (k > 1) write(*,'(A)',advance='no') ','
      write(*,'(I0)',advance='no') v(k)
    end do
    write(*,'(A)',advance='no') '}'
  end subroutine
  subroutine obs_da(v)
    real(C_DOUBLE), intent(in) :: v(:)
    integer :: k
    write(*,'(1X,I0,A)',advance='no') size(v), ':{'
    do k = 1, size(v)
      if (k > 1) write(*,'(A)',advance='no') ','
      write(*,'(I0)',advance='no') transfer(v(k), 0_C_INT64_T)
    end do
    write(*,'(A)',advance='no') '}'
  end subroutine
  subroutine obs_fa(v)
    real(C_FLOAT), intent(in) :: v(:)
    integer :: k
    write(*,'(1X,I0,A)',advance='no') size(v), ':{'
    do k = 1, size(v)
      if (k > 1) write(*,'(A)',advance='no') ','
      write(*,'(I0)',advance='no') transfer(v(k), 0_C_INT32_T)
    end do
    write(*,'(A)',advance='no') '}'
  end subroutine
end module vt_obs
"""


def flit(t, v):
    """Fortran literal for a native value."""
    if t.cls == "int":
        k = t.fkind
        if v < 0 and (-v - 1) in (A.INT_MAX, A.LONG_MAX, 32767, 127):
            return "(-%d_%s - 1_%s)" % (-v - 1, k, k)
        return "%d_%s" % (v, k) if v >= 0 else "(-%d_%s)" % (-v, k)
    s = repr(float(v))
    if "e" not in s and "." not in s:
        s += ".0"
    if v < 0:
        return "(%s_%s)" % (s, t.fkind)
    return "%s_%s" % (s, t.fkind)


def fstr(s):
    return "'" + s.replace("'", "''") + "'"


def obs_scalar(t, expr):
    if t.cls == "int":
        return "call obs_i(int(%s, C_LONG_LONG))" % expr
    return "call obs_%s(%s)" % ("d" if t.cls == "real8" else "f", expr)


def obs_array(t, expr):
    if t.cls == "int":
        return "call obs_ia(int(%s, C_LONG_LONG))" % expr
    return "call obs_%sa(%s)" % ("d" if t.cls == "real8" else "f", expr)


def farr(t, vals, name):
    """statements that give allocatable array <name> the values"""
    if not vals:
        return ["allocate(%s(0))" % name]
    return ["allocate(%s(%d))" % (name, len(vals)), "%s = [%s]" % (name, ", ".join(flit(t, v) for v in vals))]


def arg_code(atom, n, v):
    """-> (declarations, setup statements, [actual argument expressions], post statements)"""
    z = "zz_" + n
    if isinstance(atom, A.Val):
        return [], [], [flit(atom.t, v)], []
    if isinstance(atom, A.BoolVal):
        return [], [], [".true." if v else ".false."], []
    if isinstance(atom, A.CharVal):
        return [], [], [fstr(v)], []
    if isinstance(atom, A.Ptr):
        d = ["%s :: %s" % (atom.t.fdecl, z)]
        s = ["%s = %s" % (z, flit(atom.t, v))] if atom.intent != "out" else []
        p = [obs_scalar(atom.t, z)] if atom.intent != "in" else []
        return d, s, [z], p
    if isinstance(atom, A.BoolPtr):
        d = ["logical :: %s" % z]
        s = ["%s = %s" % (z, ".true." if v else ".false.")] if atom.intent != "out" else []
        return d, s, [z], ["call obs_l(%s)" % z]
    if isinstance(atom, A.Arr):
        d = ["%s, allocatable :: %s(:)" % (atom.t.fdecl, z)]
        p = [obs_array(atom.t, z)] if atom.intent == "inout" else []
        return d, farr(atom.t, v, z), [z], p
    if isinstance(atom, A.ArrOut):
        d = ["%s, allocatable :: %s(:)" % (atom.t.fdecl, z)]
        return d, ["allocate(%s(%d))" % (z, v)], [z, "%d_C_INT" % v], [obs_array(atom.t, z)]
    if isinstance(atom, (A.CStrIn, A.StrIn, A.CStrInImplied)):
        return [], [], [fstr(v)], []
    if isinstance(atom, A.CStrOut):
        return ["character(len=%d) :: %s" % (v, z)], [], [z], ["call obs_s(%s)" % z]
    if isinstance(atom, A.CStrInoutLen):
        text, ln = v
        return ["character(len=%d) :: %s" % (ln, z)], ["%s = %s" % (z, fstr(text))], [z], ["call obs_s(%s)" % z]
    if isinstance(atom, A.CStrInout):
        return ["character(len=%d) :: %s" % (len(v), z)], ["%s = %s" % (z, fstr(v))], [z], ["call obs_s(%s)" % z]
    if isinstance(atom, A.StrOut):
        if atom.intent == "out":
            return ["character(len=%d) :: %s" % (v, z)], [], [z], ["call obs_s(%s)" % z]
        text, ln = v
        return ["character(len=%d) :: %s" % (ln, z)], ["%s = %s" % (z, fstr(text))], [z], ["call obs_s(%s)" % z]
    if isinstance(atom, A.Vec):
        d = ["%s, allocatable :: %s(:)" % (atom.t.fdecl, z)]
        if atom.intent in ("in", "inout"):
            p = [obs_array(atom.t, z)] if atom.intent == "inout" else []
            return d, farr(atom.t, v, z), [z], p
        if atom.intent == "out":
            fill = flit(atom.t, -9 if atom.t.cls == "int" else -9.0)
            return d, ["allocate(%s(%d))" % (z, v), "%s = %s" % (z, fill)], [z], [obs_array(atom.t, z)]
        return d, [], [z], [obs_array(atom.t, z)]
    if isinstance(atom, A.EnumVal):
        return [], [], [v[0].lower()], []
    if isinstance(atom, A.ClsArg):
        return [], [], ["zz_obj%d" % v], []
    if isinstance(atom, A.PtrPtrOut):
        return ["%s, pointer :: %s(:)" % (atom.t.fdecl, z)], [], [z], [obs_array(atom.t, z)]
    if isinstance(atom, A.PtrPtrRaw):
        return ["type(C_PTR) :: %s" % z, "%s, pointer :: %s_p(:)" % (atom.t.fdecl, z)], [], [z], ["call c_f_pointer(%s, %s_p, [4])" % (z, z), obs_array(atom.t, z + "_p")]
    if isinstance(atom, A.ArrOutAlloc):
        return ["%s, allocatable :: %s(:)" % (atom.t.fdecl, z)], [], ["%d_C_INT" % v, z], [obs_array(atom.t, z)]
    if isinstance(atom, A.VoidPP):
        if atom.form == "in":
            return ["integer(C_INT), target :: %s_t" % z, "type(C_PTR) :: %s" % z], ["%s_t = %s" % (z, flit(A.NATIVE["int"], v)), "%s = c_loc(%s_t)" % (z, z)], [z], []
        return ["type(C_PTR) :: %s" % z, "integer(C_INT), pointer :: %s_p" % z], [], [z], ["call c_f_pointer(%s, %s_p)" % (z, z), obs_scalar(A.NATIVE["int"], z + "_p")]
    if isinstance(atom, A.CdescIn):
        return ["%s :: %s(3)" % (atom.t.fdecl, z)], ["%s = [%s]" % (z, ", ".join(flit(atom.t, x) for x in v))], [z], []
    if isinstance(atom, A.PtrPtrIn):
        d = ["%s, target :: %s_r1(2), %s_r2(2)" % (atom.t.fdecl, z, z), "type(C_PTR), target :: %s(2)" % z]
        pre = ["%s_r1 = [%s, %s]" % (z, flit(atom.t, v[0]), flit(atom.t, v[1])), "%s_r2 = [%s, %s]" % (z, flit(atom.t, v[2]), flit(atom.t, v[3])),
               "%s(1) = c_loc(%s_r1)" % (z, z), "%s(2) = c_loc(%s_r2)" % (z, z)]
        return d, pre, ["c_loc(%s)" % z], []
    if isinstance(atom, A.VoidPtr):
        return ["integer(C_INT), target :: %s" % z], ["%s = %s" % (z, flit(A.NATIVE["int"], v))], ["c_loc(%s)" % z], [obs_scalar(A.NATIVE["int"], z)]
    if isinstance(atom, A.StrArrIn):
        ln, texts = v
        return ["character(len=%d) :: %s(%d)" % (ln, z, len(texts))], ["%s(%d) = %s" % (z, i + 1, fstr(t)) for i, t in enumerate(texts)], [z], []
    if isinstance(atom, A.StructArg):
        ti, td = A.NATIVE["int"], A.NATIVE["double"]
        d = ["type(pt) :: %s" % z]
        s = ["%s%%i = %s" % (z, flit(ti, v[0])), "%s%%d = %s" % (z, flit(td, v[1]))] if atom.intent != "out" else []
        p = [obs_scalar(ti, z + "%i"), obs_scalar(td, z + "%d")] if atom.intent != "in" else []
        return d, s, [z], p
    raise NotImplementedError(atom.id)


def res_code(res, call, extra):
    """-> (declarations, statements performing the call and observing the result)"""
    if isinstance(res, A.VoidRes):
        return [], ["call " + call]
    if isinstance(res, A.VoidPtrRes) or (isinstance(res, A.PtrRes) and res.deref == "raw"):
        t = A.NATIVE["int"] if isinstance(res, A.VoidPtrRes) else res.t
        return ["type(C_PTR) :: zz_r", "%s, pointer :: zz_p" % t.fdecl], ["zz_r = " + call, "call c_f_pointer(zz_r, zz_p)", obs_scalar(t, "zz_p")]
    if isinstance(res, (A.NatRes, A.PtrRes)):
        if isinstance(res, A.PtrRes) and res.deref != "scalar":
            return ["%s, pointer :: zz_r" % res.t.fdecl], ["zz_r => " + call, obs_scalar(res.t, "zz_r")]
        return ["%s :: zz_r" % res.t.fdecl], ["zz_r = " + call, obs_scalar(res.t, "zz_r")]
    if isinstance(res, A.BoolRes):
        return ["logical :: zz_r"], ["zz_r = " + call, "call obs_l(zz_r)"]
    if isinstance(res, A.CharRes):
        return ["character :: zz_r"], ["zz_r = " + call, "call obs_i(int(ichar(zz_r), C_LONG_LONG))"]
    # a +len(n) result is received in a deferred-length variable too: it takes the length the function result really has
    # (a fixed-length receiver would pad or cut whatever comes back to n and hide a result of another length)
    if isinstance(res, (A.CStrRes, A.StrRes)):
        return ["character(len=:), allocatable :: zz_r"], ["zz_r = " + call, "call obs_s(zz_r)"]
    if isinstance(res, A.ArrRes2):
        shp = ["call obs_i(int(size(zz_r, 1), C_LONG_LONG))", "call obs_i(int(size(zz_r, 2), C_LONG_LONG))", obs_array(res.t, "reshape(zz_r, [size(zz_r)])")]
        if res.deref == "allocatable":
            return ["%s, allocatable :: zz_r(:,:)" % res.t.fdecl], ["zz_r = " + call] + shp
        return ["%s, pointer :: zz_r(:,:)" % res.t.fdecl], ["zz_r => " + call] + shp
    if isinstance(res, A.ArrRes):
        if res.deref == "allocatable":
            return ["%s, allocatable :: zz_r(:)" % res.t.fdecl], ["zz_r = " + call, obs_array(res.t, "zz_r")]
        return ["%s, pointer :: zz_r(:)" % res.t.fdecl], ["zz_r => " + call, obs_array(res.t, "zz_r")]
    if isinstance(res, A.VecRes):
        return ["%s, allocatable :: zz_r(:)" % res.t.fdecl], ["zz_r = " + call, obs_array(res.t, "zz_r")]
    if isinstance(res, A.EnumRes):
        return ["integer(C_INT) :: zz_r"], ["zz_r = " + call, "call obs_i(int(zz_r, C_LONG_LONG))"]
    if isinstance(res, A.StructRes):
        ti, td = A.NATIVE["int"], A.NATIVE["double"]
        if res.form == "val":
            return ["type(pt) :: zz_r"], ["zz_r = " + call, obs_scalar(ti, "zz_r%i"), obs_scalar(td, "zz_r%d")]
        return ["type(pt), pointer :: zz_r"], ["zz_r => " + call, obs_scalar(ti, "zz_r%i"), obs_scalar(td, "zz_r%d")]
    raise NotImplementedError(res.id)


def call_plans(func, cap=None):
    """Every combination of the atoms' value alphabets (x extra result parameters x default arities)."""
    alph = [A.values_of(a) for a, _ in func.args]
    extra = func.res.extra_values() if func.res.extra_params else [None]
    combos = list(itertools.product(*alph)) if alph else [()]
    plans = []
    ndef = len(func.defaults)
    for combo in combos:
        for ex in extra:
            for omit in range(ndef + 1):
                plans.append((combo, ex, omit))
    if cap and len(plans) > cap:
        # keep a covering subset: every value of every atom appears (each-choice), deterministic
        keep = []
        step = max(1, len(plans) // cap)
        keep = plans[::step][:cap]
        seen = [set() for _ in alph]
        for combo, ex, omit in keep:
            for i, v in enumerate(combo):
                seen[i].add(repr(v))
        for combo, ex, omit in plans:
            if any(repr(v) not in seen[i] for i, v in enumerate(combo)):
                keep.append((combo, ex, omit))
                for i, v in enumerate(combo):
                    seen[i].add(repr(v))
        plans = keep
    return plans


def expected(func, plan, trimmed=True):
    """Reference model for one call -> (RECV line, OBS line)."""
    combo, ex, omit = plan
    nargs = len(func.args)
    recv = "RECV " + func.tag
    obs = []
    for i, ((atom, n), v) in enumerate(zip(func.args, combo)):
        if omit and i >= nargs - omit:
            v = func.defaults[n][1]
        if not trimmed and hasattr(atom, "recv_exact"):
            recv += atom.recv_exact(n, v)
        else:
            recv += atom.recv(n, v)
    for pt, pn in func.res.extra_params:
        recv += " %s=%d" % (pn, ex)
    for (atom, n), v in list(zip(func.args, combo))[: nargs - omit if omit else nargs]:
        obs += atom.observe(v)
    obs = func.res.observe(ex) + obs
    return recv, "OBS " + func.tag + "".join(" " + o for o in obs)


def driver(lib, plans_by_func, module=None):
    """Fortran driver source + expected (recv lines, obs lines)."""
    mod = module or (lib.name.lower() + "_mod")
    out = ["program vt_driver", "  use iso_c_binding", "  use vt_obs", "  use %s" % mod, "  implicit none"]
    if "class" in lib.needs():
        out += ["  type(cls) :: zz_obj11, zz_obj22"]
    out += ["  call run_all()", "contains", "subroutine run_all()"]
    if "class" in lib.needs():
        out += ["  zz_obj11 = cls(11_C_INT)", "  zz_obj22 = cls(22_C_INT)"]
    exp_recv, exp_obs = [], []
    for f in lib.funcs:
        # fortran_generic: the same call is made once per offered type of the first argument
        variants = [(plan, t) for plan in plans_by_func[f.tag] for t in (f.generic or [None])]
        for plan, gtype in variants:
            combo, ex, omit = plan
            decls, setup, actual, post = [], [], [], []
            nargs = len(f.args)
            for i, ((atom, n), v) in enumerate(zip(f.args, combo)):
                if omit and i >= nargs - omit:
                    continue
                if gtype is not None and i == 0:
                    atom = A.Val(gtype)
                d, s, a, p = arg_code(atom, n, v)
                decls += d
                setup += s
                actual += a
                post += p
            if f.res.extra_params:
                actual.append("%d_C_INT" % ex)
            call = "%s(%s)" % (getattr(f, "fcall", f.name).lower(), ", ".join(actual))
            rd, rs_ = res_code(f.res, call, ex)
            out.append("  block")
            out += ["    " + x for x in decls + rd]
            out += ["    " + x for x in setup]
            out.append("    call obs_begin('%s')" % f.tag)
            # the call happens first, its observations are printed after it
            out += ["    " + x for x in rs_[:1]]
            out += ["    " + x for x in rs_[1:]]
            out += ["    " + x for x in post]
            out.append("    call obs_end()")
            out.append("  end block")
            r, o = expected(f, plan, trimmed=True)
            exp_recv.append(r)
            exp_obs.append(o)
    out += ["end subroutine run_all", "end program vt_driver"]
    return "\n".join(out) + "\n", exp_recv, exp_obs
