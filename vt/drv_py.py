"""Python front end: the call list and the caller-side reference model (C03).

The numpy-free subset (PY_array_arg=list).  What the extension returns is the library's result
followed by every intent(out)/(inout) argument, as a single object or a tuple (None when
there is nothing)."""
from __future__ import annotations

import struct

from . import atoms as A
from . import drv_c

DRIVER_HEAD = r'''
import struct, sys, ctypes
sys.path.insert(0, ".")
import MODULE as M
_mark = ctypes.CDLL("./MODULE.so").vt_marker
_mark.argtypes = [ctypes.c_char_p]

def rnd(v):
    if v is None:
        return "None"
    if isinstance(v, bool):
        return "1" if v else "0"
    if isinstance(v, int):
        return str(v)
    if isinstance(v, float):
        return str(struct.unpack("<q", struct.pack("<d", v))[0])
    if isinstance(v, str):
        return "%d:[%s]" % (len(v), v)
    if isinstance(v, (list, tuple)) and isinstance(v, list):
        return "%d:{%s}" % (len(v), ",".join(rnd(x) for x in v))
    return "<%s>" % type(v).__name__

def mk(s):
    """a fresh (not interned, not cached) str object"""
    return bytes(s, "ascii").decode("ascii")

def show(name, tag, fn, keep=()):
    _mark(("%s %s" % (name, tag)).encode())
    try:
        r = fn()
    except (TypeError, ValueError) as e:
        print("OBS %s %s raises TypeError/ValueError" % (name, tag)); sys.stdout.flush(); return
    except BaseException as e:
        print("OBS %s %s raises %s: %s" % (name, tag, type(e).__name__, e)); sys.stdout.flush(); return
    if isinstance(r, tuple):
        items = [rnd(x) for x in r]
    elif r is None:
        items = []
    else:
        items = [rnd(r)]
    mut = "".join(" ARG-MUTATED" for obj, orig in keep if obj != orig)
    print("OBS %s %s ->%s%s" % (name, tag, "".join(" " + i for i in items), mut)); sys.stdout.flush()
'''


def supported(f):
    """Atoms of the numpy-free subset with a defined caller-side model."""
    for a, _ in f.args:
        if isinstance(a, A.Vec) and a.intent in ("alloc",):
            return False
    if isinstance(f.res, A.ArrRes) and f.res.deref == "allocatable":
        return False  # returns only the first element in list mode; no documented rule to hold it to
    if isinstance(f.res, A.CStrRes) and f.res.flen:
        return True
    return all(getattr(a, "py", True) for a, _ in f.args) and getattr(f.res, "py", True)


def pylit(v):
    return repr(v)


def arg_value(atom, v):
    """-> [(keyword name suffix, python literal)] the Python-visible arguments of this atom (may be none)."""
    if isinstance(atom, (A.Val,)):
        return [("", pylit(float(v)) if atom.t.cls != "int" else pylit(int(v)))]
    if isinstance(atom, A.BoolVal):
        return [("", pylit(bool(v)))]
    if isinstance(atom, A.CharVal):
        return [("", pylit(v))]
    if isinstance(atom, A.Ptr):
        if atom.intent == "out":
            return []
        return [("", pylit(float(v)) if atom.t.cls != "int" else pylit(int(v)))]
    if isinstance(atom, A.BoolPtr):
        return [] if atom.intent == "out" else [("", pylit(bool(v)))]
    if isinstance(atom, A.Arr):
        return [("", pylit([float(x) if atom.t.cls != "int" else int(x) for x in v]))]
    if isinstance(atom, A.ArrOut):
        return [("n", pylit(int(v)))]
    if isinstance(atom, (A.CStrIn, A.StrIn)):
        return [("", pylit(v))]
    if isinstance(atom, A.CStrOut):
        return []
    if isinstance(atom, A.CStrInout):
        return [("", "mk(%s)" % pylit(v))]
    if isinstance(atom, A.StrOut):
        return [] if atom.intent == "out" else [("", "mk(%s)" % pylit(v[0] if len(v[0]) > 1 else v[0] + "q"))]
    if isinstance(atom, A.Vec):
        if atom.intent in ("in", "inout"):
            return [("", pylit([float(x) if atom.t.cls != "int" else int(x) for x in v]))]
        return []
    if isinstance(atom, A.EnumVal):
        return [("", "M.%s" % v[0])]
    if isinstance(atom, A.ClsArg):
        return [("", "OBJ%d" % v)]
    raise NotImplementedError(atom.id)


def wrong_values(atom):
    """Values of the wrong type for this atom's Python argument (must raise TypeError/ValueError)."""
    if isinstance(atom, A.Val):
        return ["None", "'s'", "[]", "object()"] + (["1.5"] if atom.t.cls == "int" else [])
    if isinstance(atom, A.BoolVal) or isinstance(atom, A.BoolPtr):
        return ["None", "'s'", "1.5", "[]", "object()"]
    if isinstance(atom, A.Ptr):
        return ["None", "'s'", "[]", "object()"]
    if isinstance(atom, (A.Arr, A.Vec)):
        return ["None", "1.5", "object()", "['a']"]
    if isinstance(atom, A.ArrOut):
        return ["None", "'s'", "[]"]
    if isinstance(atom, (A.CStrIn, A.StrIn, A.CStrInout, A.StrOut)):
        return ["None", "1.5", "[]", "object()"]
    if isinstance(atom, A.ClsArg):
        return ["None", "'s'", "1.5", "object()"]
    if isinstance(atom, A.EnumVal):
        return ["None", "'s'", "[]"]
    if isinstance(atom, A.CharVal):
        return ["None", "1.5", "[]"]
    return []


def py_inout_text(atom, v):
    """the text actually passed for std::string inout (one-character strings are shared singletons in CPython)"""
    return v[0] if len(v[0]) > 1 else v[0] + "q"


def observe_py(atom, v):
    if isinstance(atom, A.StrOut) and atom.intent == "inout":
        return [A.rs(py_inout_text(atom, v) + "+x")]
    if isinstance(atom, A.Vec):
        if atom.intent == "inout":
            return [A.ra(atom.t, atom.lib_result(v))]
        if atom.intent == "out":
            return [A.ra(atom.t, atom.lib_result(v))]
        return []
    if isinstance(atom, A.ArrOut):
        return atom.observe(v)
    return drv_c.observe_c(atom, v)


def observe_res_py(res, extra):
    if isinstance(res, A.CStrRes):
        return [A.rs(res.text)]
    if isinstance(res, A.CharRes):
        return [A.rs("Q")]
    if isinstance(res, A.PtrRes) and not res.ref:
        return [A.ra(res.t, [A.outval(res.t, 1)])]
    return res.observe(extra)


def recv_py(atom, n, v):
    if isinstance(atom, A.StrOut) and atom.intent == "inout":
        return " %s=%s" % (n, A.rs(py_inout_text(atom, v)))
    if isinstance(atom, A.Vec) and atom.intent == "out":
        return ""
    return drv_c.recv_c(atom, n, v)


def expected(func, plan):
    combo, ex, omit = plan
    nargs = len(func.args)
    recv = "RECV " + func.name
    obs = []
    for i, ((atom, n), v) in enumerate(zip(func.args, combo)):
        if omit and i >= nargs - omit:
            recv += atom.recv(n, func.defaults[n][1])
        else:
            recv += recv_py(atom, n, v)
    for pt, pn in func.res.extra_params:
        recv += " %s=%d" % (pn, ex)
    # Python has no single precision: a C float comes back as the double holding the same value
    orig = A.rnd
    dbl = A.NATIVE["double"]

    def rnd_py(t, v):
        if t.cls == "real4":
            return orig(dbl, struct.unpack("<f", struct.pack("<f", v))[0])
        return orig(t, v)

    A.rnd = rnd_py
    try:
        for (atom, n), v in list(zip(func.args, combo))[: nargs - omit if omit else nargs]:
            obs += observe_py(atom, v)
        obs = observe_res_py(func.res, ex) + obs
    finally:
        A.rnd = orig
    return recv, obs


def driver(lib, plans_by_func, module, quick):
    """Python driver source + expected [(tag, obs line, [recv lines])]."""
    out = [DRIVER_HEAD.replace("MODULE", module)]
    if "class" in lib.needs():
        out += ["OBJ11 = M.Cls(11)", "OBJ22 = M.Cls(22)"]
    exp = []
    if "class" in lib.needs():
        pass
    for f in lib.funcs:
        if not supported(f):
            continue
        for pi, plan in enumerate(plans_by_func[f.name]):
            combo, ex, omit = plan
            nargs = len(f.args)
            if any(isinstance(a, A.CStrInout) and len(v) < 2 for (a, _), v in zip(f.args, combo)):
                continue  # one-character str objects are shared singletons in CPython; see the in-place mutation finding
            pyargs = []  # (keyword, literal, atom)
            for i, ((atom, n), v) in enumerate(zip(f.args, combo)):
                if omit and i >= nargs - omit:
                    continue
                for suf, lit in arg_value(atom, v):
                    pyargs.append((suf + n if suf else n, lit, atom))
            if f.res.extra_params:
                pyargs.append(("n", str(ex), None))
            recv, obs = expected(f, plan)
            k = len(pyargs)
            splits = range(k + 1) if (pi < 3 or not quick) else (0, k)
            for p in sorted(set(splits)):
                # arguments the library may write through are bound to names so that the caller's object can be inspected afterwards
                pre, keep, lits2 = [], [], []
                for ai, (kw, lit, atom) in enumerate(pyargs):
                    if isinstance(atom, A.CStrInout):
                        pre.append("zz%d = %s" % (ai, lit))
                        keep.append("(zz%d, %s)" % (ai, lit[3:-1]))
                        lits2.append("zz%d" % ai)
                    else:
                        lits2.append(lit)
                call = ", ".join(lits2[:p] + ["%s=%s" % (pyargs[i][0], lits2[i]) for i in range(p, len(pyargs))])
                tag = "p%d#%d.%d" % (pi, p, omit)
                out += pre
                out.append("show(%r, %r, lambda: M.%s(%s), [%s])" % (f.name, tag, f.name, call, ", ".join(keep)))
                exp.append((f.name, tag, "OBS %s %s ->%s" % (f.name, tag, "".join(" " + o for o in obs)), [recv]))
            if pi == 0 and len(f.defaults) >= 2 and not omit:
                # a later default given by keyword while an earlier one is left to the library
                req = len(pyargs) - len(f.defaults)
                lits = [x[1] for x in pyargs[:req]] + ["%s=%s" % (pyargs[-1][0], pyargs[-1][1])]
                out.append("show(%r, 'kwskip', lambda: M.%s(%s))" % (f.name, f.name, ", ".join(lits)))
                recv2 = "RECV " + f.name
                for i, ((atom, n), v) in enumerate(zip(f.args, combo)):
                    if n in f.defaults and i < len(f.args) - 1:
                        recv2 += atom.recv(n, f.defaults[n][1])
                    else:
                        recv2 += recv_py(atom, n, v)
                exp.append((f.name, "kwskip", "OBS %s kwskip ->%s" % (f.name, "".join(" " + o for o in obs)), [recv2]))
            if pi == 0:
                # wrong types, one position at a time; too many / too few arguments
                for j, (kw, lit, atom) in enumerate(pyargs):
                    if atom is None:
                        continue
                    for wi, w in enumerate(wrong_values(atom)):
                        lits = [x[1] for x in pyargs]
                        lits[j] = w
                        tag = "w%d.%d" % (j, wi)
                        out.append("show(%r, %r, lambda: M.%s(%s))" % (f.name, tag, f.name, ", ".join(lits)))
                        exp.append((f.name, tag, "OBS %s %s raises TypeError/ValueError" % (f.name, tag), []))
                lits = [x[1] for x in pyargs] + ["0"]
                out.append("show(%r, 'extra', lambda: M.%s(%s))" % (f.name, f.name, ", ".join(lits)))
                exp.append((f.name, "extra", "OBS %s extra raises TypeError/ValueError" % f.name, []))
                if k - len(f.defaults) > 0 and not omit:
                    required = k - len(f.defaults)
                    lits = [x[1] for x in pyargs][: required - 1]
                    out.append("show(%r, 'missing', lambda: M.%s(%s))" % (f.name, f.name, ", ".join(lits)))
                    exp.append((f.name, "missing", "OBS %s missing raises TypeError/ValueError" % f.name, []))
                if k:
                    out.append("show(%r, 'badkw', lambda: M.%s(%s))" % (f.name, f.name, ", ".join([x[1] for x in pyargs[:-1]] + ["nosuch=" + pyargs[-1][1]])))
                    exp.append((f.name, "badkw", "OBS %s badkw raises TypeError/ValueError" % f.name, []))
    return "\n".join(out) + "\n", exp
