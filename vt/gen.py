"""Generate one description in a scratch directory (relative outdir 'out') and read the tree back."""
from __future__ import annotations

import os
import shutil

import yaml

from . import isolate


def dump_yaml(d):
    return yaml.safe_dump(d, default_flow_style=False, sort_keys=False, width=1000)


def gen_tree(workdir, desc, argv=(), files=None, keep=False, skip_ext=(".log", ".json")):
    """desc: dict or YAML text.  Returns (Result, {relpath: bytes})."""
    os.makedirs(os.path.join(workdir, "out"), exist_ok=True)
    text = desc if isinstance(desc, str) else dump_yaml(desc)
    with open(os.path.join(workdir, "lib.yaml"), "w") as fp:
        fp.write(text)
    for fn, t in (files or {}).items():
        with open(os.path.join(workdir, fn), "w") as fp:
            fp.write(t)
    r = isolate.shroud_cli(["--outdir", "out", "--logdir", "out"] + list(argv) + ["lib.yaml"], cwd=workdir)
    tree = isolate.read_tree(os.path.join(workdir, "out"), skip_ext=skip_ext) if r.status == "ok" else {}
    if not keep:
        shutil.rmtree(workdir, ignore_errors=True)
    return r, tree


FORTRAN_EXT = ("f", "f90", "f03", "f08", "for")
C_EXT = ("c", "cc", "cpp", "cxx", "h", "hh", "hpp", "hxx")


def strip_comments(name, data):
    """Token-ish stream of a generated source file with comments and blank lines removed."""
    text = data.decode("utf-8", "replace")
    out = []
    ext = name.rsplit(".", 1)[-1].lower() if "." in name else ""
    if ext not in FORTRAN_EXT + C_EXT + ("lua", "py", "yaml", "json", "log", "txt", "rst"):
        # suffixes are options (C_header_filename_suffix, ...): classify by the generated banner
        first = text.lstrip()[:2]
        ext = "f" if first.startswith("!") else ("c" if first in ("//", "/*") else ext)
    if ext in FORTRAN_EXT:
        for ln in text.split("\n"):
            res = []
            q = None
            for ch in ln:
                if q:
                    res.append(ch)
                    if ch == q:
                        q = None
                elif ch in "'\"":
                    q = ch
                    res.append(ch)
                elif ch == "!":
                    break
                else:
                    res.append(ch)
            s = "".join(res).strip()
            if s:
                out.append(" ".join(s.split()))
        return "\n".join(out)
    if ext in C_EXT:
        res = []
        i = 0
        n = len(text)
        while i < n:
            ch = text[i]
            if ch == '"' or ch == "'":
                j = i + 1
                while j < n and text[j] != ch:
                    if text[j] == "\\":
                        j += 1
                    j += 1
                res.append(text[i:j + 1])
                i = j + 1
            elif text.startswith("//", i):
                j = text.find("\n", i)
                i = n if j < 0 else j
            elif text.startswith("/*", i):
                j = text.find("*/", i + 2)
                i = n if j < 0 else j + 2
                res.append(" ")
            else:
                res.append(ch)
                i += 1
        for ln in "".join(res).split("\n"):
            s = " ".join(ln.split())
            if s:
                out.append(s)
        return "\n".join(out)
    if name.endswith((".py", ".yaml")):
        for ln in text.split("\n"):
            s = ln.split("#")[0].rstrip() if ln.lstrip().startswith("#") else ln.rstrip()
            if s.strip():
                out.append(s)
        return "\n".join(out)
    return text
