"""Run the real shroud in forked children of a warm parent; parallel map."""
from __future__ import annotations

import io
import json
import multiprocessing
import os
import signal
import sys
import traceback


class Result(dict):
    """status: 'ok' | 'diagnostic' | 'internal' | 'timeout' | 'signal'."""

    __getattr__ = dict.get


def _frames(tb):
    return [(f.filename, f.lineno, f.name) for f in traceback.extract_tb(tb)]


def classify_exception(exc, tb=None):
    from .common import DIAGNOSTIC_EXC, site_of

    name = type(exc).__name__
    frames = _frames(tb if tb is not None else exc.__traceback__)
    msg = str(exc)
    if isinstance(exc, SystemExit):
        code = exc.code
        if code is None or code == 0:
            return Result(status="ok", exc=None, msg="", site="", frames=[])
        msg = str(code)
    status = "diagnostic" if name in DIAGNOSTIC_EXC else "internal"
    return Result(status=status, exc=name, msg=msg[:600], site=site_of(frames, None), frames=frames[-6:])


def call_in_child(func, args=(), timeout=60, cwd=None, env=None, quiet=True):
    """fork(); run func(*args) in the child; return Result with .value (JSON-able)."""
    r, w = os.pipe()
    pid = os.fork()
    if pid == 0:
        # ---- child
        code = 0
        try:
            os.close(r)
            if cwd:
                os.chdir(cwd)
            if env is not None:
                os.environ.clear()
                os.environ.update(env)
            if quiet:
                devnull = os.open(os.devnull, os.O_WRONLY)
                os.dup2(devnull, 1)
                os.dup2(devnull, 2)
                sys.stdout = io.TextIOWrapper(os.fdopen(1, "wb", closefd=False), write_through=True)
                sys.stderr = io.TextIOWrapper(os.fdopen(2, "wb", closefd=False), write_through=True)
            try:
                value = func(*args)
                res = Result(status="ok", exc=None, msg="", site="", frames=[], value=value)
            except BaseException as e:  # noqa
                res = classify_exception(e)
            data = json.dumps(res, default=repr).encode()
            with os.fdopen(w, "wb") as fp:
                fp.write(data)
        except BaseException:
            code = 3
        finally:
            os._exit(code)
    # ---- parent
    os.close(w)

    def _alarm(signum, frame):
        raise TimeoutError()

    old = signal.signal(signal.SIGALRM, _alarm)
    signal.alarm(int(timeout))
    try:
        with os.fdopen(r, "rb") as fp:
            data = fp.read()
        _, st = os.waitpid(pid, 0)
    except TimeoutError:
        os.kill(pid, signal.SIGKILL)
        os.waitpid(pid, 0)
        return Result(status="timeout", exc="Timeout", msg="no answer in %ss" % timeout, site="", frames=[])
    finally:
        signal.alarm(0)
        signal.signal(signal.SIGALRM, old)
    if os.WIFSIGNALED(st):
        return Result(status="signal", exc="Signal%d" % os.WTERMSIG(st), msg="", site="", frames=[])
    if not data:
        return Result(status="internal", exc="NoResult", msg="child exit %d" % os.WEXITSTATUS(st), site="", frames=[])
    return Result(json.loads(data))


def _shroud_main(argv):
    import shroud.main

    sys.argv = ["shroud"] + list(argv)
    covdir = os.environ.get("VT_STMT_COV")
    if not covdir:
        shroud.main.main()
        return
    # coverage reporting only (vt.stmtcov): which statement-table entries does this generation reach?
    from shroud import statements

    seen = set()
    orig = statements.lookup_stmts_tree

    def lookup(tree, path):
        found = orig(tree, path)
        seen.add(getattr(found, "name", None) or "default:" + str(path[0]))
        return found

    statements.lookup_stmts_tree = lookup
    try:
        shroud.main.main()
    finally:
        with open(os.path.join(covdir, "%d.txt" % os.getpid()), "a") as fp:
            fp.write("\n".join(sorted(seen)) + "\n")


def shroud_cli(argv, cwd=None, env=None, timeout=120):
    """The console entry point (argparse + main_with_args) in a forked child."""
    return call_in_child(_shroud_main, (argv,), timeout=timeout, cwd=cwd, env=env)


def generate(yaml_text, outdir, extra=(), name="lib.yaml", files=None, cwd=None, timeout=120):
    """Write yaml_text (and extra files {relname: text}) into outdir's parent, run shroud."""
    parent = os.path.dirname(outdir.rstrip("/"))
    os.makedirs(outdir, exist_ok=True)
    ypath = os.path.join(parent, name)
    with open(ypath, "w") as fp:
        fp.write(yaml_text)
    for rel, text in (files or {}).items():
        with open(os.path.join(parent, rel), "w") as fp:
            fp.write(text)
    argv = ["--outdir", outdir, "--logdir", outdir] + list(extra) + [ypath]
    return shroud_cli(argv, cwd=cwd or parent, timeout=timeout)


# -------------------------------------------------------------------------
_FUNC = None


def _init(func):
    global _FUNC
    _FUNC = func
    signal.signal(signal.SIGINT, signal.SIG_IGN)


def _call(item):
    try:
        return _FUNC(item)
    except BaseException as e:  # machinery error inside a worker: surface it
        return ("__worker_error__", "".join(traceback.format_exception(e)))


def pmap(func, items, workers=16, chunksize=1):
    """Ordered parallel map over forked workers; raises on a worker-side machinery error."""
    items = list(items)
    if not items:
        return []
    if workers <= 1 or len(items) == 1:
        out = [func(i) for i in items]
    else:
        ctx = multiprocessing.get_context("fork")
        with ctx.Pool(min(workers, len(items)), initializer=_init, initargs=(func,)) as pool:
            out = pool.map(_call, items, chunksize=chunksize)
    for o in out:
        if isinstance(o, tuple) and len(o) == 2 and o[0] == "__worker_error__":
            raise RuntimeError("worker failed:\n" + o[1])
    return out


def read_tree(root, skip_ext=(".log", ".json")):
    """{relative path: bytes} of a directory tree."""
    out = {}
    for dp, dn, fn in os.walk(root):
        dn.sort()
        for f in sorted(fn):
            if f.endswith(tuple(skip_ext)):
                continue
            p = os.path.join(dp, f)
            with open(p, "rb") as fp:
                out[os.path.relpath(p, root)] = fp.read()
    return out


def diff_trees(a, b, limit=3):
    """Human-readable summary of the first differences between two read_tree dicts."""
    import difflib

    msgs = []
    for k in sorted(set(a) | set(b)):
        if k not in a:
            msgs.append("only in second: %s" % k)
        elif k not in b:
            msgs.append("only in first: %s" % k)
        elif a[k] != b[k]:
            d = list(
                difflib.unified_diff(
                    a[k].decode("utf-8", "replace").splitlines(),
                    b[k].decode("utf-8", "replace").splitlines(),
                    "first/" + k,
                    "second/" + k,
                    lineterm="",
                    n=1,
                )
            )
            msgs.append("\n".join(d[:30]))
        if len(msgs) >= limit:
            break
    return msgs
