"""Small library descriptions shared by the relational checks (C07, C12, C14, C15, C16)."""

SMALL_CXX = """\
library: Small
cxx_header: small.hpp
options:
  wrap_python: true
  wrap_lua: true
declarations:
- decl: int addOne(int a)
- decl: const std::string getName(const std::string &who)
- decl: void scale(double *v +rank(1), int n +implied(size(v)))
- decl: void over(int a)
- decl: void over(double a)
- decl: int dflt(int a = 1, int b = 2)
- decl: enum Color { RED, GREEN=3, BLUE }
- decl: namespace inner
  declarations:
  - decl: bool isOk(bool flag)
  - decl: class Thing
    declarations:
    - decl: Thing()
    - decl: ~Thing()
    - decl: int getId() const
    - decl: void setName(const std::string &name)
    - decl: static int count()
"""

SMALL_C = """\
library: Csmall
language: c
cxx_header: csmall.h
options:
  wrap_python: true
  wrap_lua: false
  PY_array_arg: list
declarations:
- decl: int c_add(int a, int b)
- decl: void c_fill(char *buf +intent(out)+charlen(20))
- decl: const char *c_name(void)
- decl: double c_sum(const double *v +rank(1), int n +implied(size(v)))
- decl: bool c_flag(bool *b +intent(inout))
- decl: struct Pair { int first; double second; };
- decl: void c_pair(Pair *p +intent(inout))
- decl: enum Mode { OFF, ON = 5, AUTO }
"""

# A C++ library that reuses names from SMALL_CXX (class Thing, function addOne) with
# different content: collides on every process-wide registry.
OTHER_CXX = """\
library: Other
cxx_header: other.hpp
options:
  wrap_python: true
  wrap_lua: true
  literalinclude2: true
declarations:
- decl: class Thing
  cpp_if: ifdef HAVE_THING
  declarations:
  - decl: Thing(int n)
  - decl: ~Thing()
  - decl: const std::string &label() const
  - decl: std::vector<int> values()
  - decl: Thing *clone() +owner(caller)
- decl: class Widget
  declarations:
  - decl: Widget()
  - decl: ~Widget()
  - decl: void use(Thing *t)
- decl: int addOne(long a)
- decl: void fillVec(std::vector<double> &v +intent(out))
- decl: int *makeArray(int n) +owner(caller)+dimension(n)
- decl: std::string makeString()
"""

# Nested namespaces: a namespace that itself contains a namespace, next to a leaf namespace
NESTED_CXX = """\
library: Nest
cxx_header: nest.hpp
options:
  wrap_python: true
  wrap_lua: false
  F_force_wrapper: true
declarations:
- decl: int topFn(int a)
- decl: namespace outer
  declarations:
  - decl: int oneFn(int a)
  - decl: namespace inner
    declarations:
    - decl: int twoFn(int a)
    - decl: class Deep
      declarations:
      - decl: Deep()
      - decl: int depth() const
  - decl: class Mid
    declarations:
    - decl: Mid()
    - decl: void poke(const std::string &s)
- decl: namespace lone
  declarations:
  - decl: int threeFn(int a)
"""
