/* Reference Lua C-API emulator: a tagged-value stack, string-keyed tables, userdata with
   metatables, errors by longjmp.  Implements exactly the calls shroud/wrapl.py emits and a
   small driver API (emu_*) used by the generated C18 drivers. */
#define _POSIX_C_SOURCE 200809L
#include <setjmp.h>
#include <stdarg.h>
#include <stdio.h>
#include <stdlib.h>
#include <string.h>
#include "lauxlib.h"
#include "emu.h"

#define MAXSTACK 64
#define MAXTAB 256
#define MAXENT 128

typedef struct Table Table;
typedef struct Value {
    int type;
    lua_Integer i; lua_Number n; int isint;
    char *s;
    void *ud; Table *meta;   /* userdata + its metatable */
    Table *t;
    lua_CFunction f;
} Value;
struct Table { char name[96]; int nent; char *keys[MAXENT]; Value vals[MAXENT]; Table *meta; };
struct lua_State {
    Value st[MAXSTACK]; int top;
    Table tabs[MAXTAB]; int ntab;
    Table registry;
    jmp_buf jb; int jb_set; char err[512];
};

static Value nilv(void) { Value v; memset(&v, 0, sizeof v); v.type = LUA_TNIL; return v; }
static Value *at(lua_State *L, int idx) {
    static Value none;
    none = nilv(); none.type = LUA_TNONE;
    if (idx > 0) return idx <= L->top ? &L->st[idx - 1] : &none;
    if (idx < 0 && idx > LUA_REGISTRYINDEX) return (-idx <= L->top) ? &L->st[L->top + idx] : &none;
    return &none;
}
static void push(lua_State *L, Value v) {
    if (L->top >= MAXSTACK) { fprintf(stderr, "emu: stack overflow\n"); abort(); }
    L->st[L->top++] = v;
}
static Table *newtab(lua_State *L, const char *name) {
    if (L->ntab >= MAXTAB) { fprintf(stderr, "emu: too many tables\n"); abort(); }
    Table *t = &L->tabs[L->ntab++];
    memset(t, 0, sizeof *t);
    snprintf(t->name, sizeof t->name, "%s", name ? name : "");
    return t;
}
static Value *tget(Table *t, const char *k) {
    for (int i = 0; i < t->nent; i++) if (!strcmp(t->keys[i], k)) return &t->vals[i];
    return NULL;
}
static void tset(Table *t, const char *k, Value v) {
    Value *p = tget(t, k);
    if (p) { *p = v; return; }
    if (t->nent >= MAXENT) { fprintf(stderr, "emu: table full\n"); abort(); }
    t->keys[t->nent] = strdup(k); t->vals[t->nent++] = v;
}

int lua_gettop(lua_State *L) { return L->top; }
void lua_settop(lua_State *L, int idx) {
    int nt = idx >= 0 ? idx : L->top + idx + 1;
    if (nt < 0) nt = 0;
    while (L->top < nt) push(L, nilv());
    L->top = nt;
}
int lua_checkstack(lua_State *L, int n) { return L->top + n <= MAXSTACK; }
int lua_type(lua_State *L, int idx) { return at(L, idx)->type; }
lua_Integer lua_tointegerx(lua_State *L, int idx, int *isnum) {
    Value *v = at(L, idx);
    if (isnum) *isnum = 0;
    if (v->type == LUA_TNUMBER) {
        if (v->isint) { if (isnum) *isnum = 1; return v->i; }
        if ((lua_Number)(lua_Integer) v->n == v->n) { if (isnum) *isnum = 1; return (lua_Integer) v->n; }
        return 0;
    }
    if (v->type == LUA_TSTRING) { char *e; long long r = strtoll(v->s, &e, 10); if (*v->s && !*e) { if (isnum) *isnum = 1; return r; } }
    return 0;
}
lua_Number lua_tonumberx(lua_State *L, int idx, int *isnum) {
    Value *v = at(L, idx);
    if (isnum) *isnum = 0;
    if (v->type == LUA_TNUMBER) { if (isnum) *isnum = 1; return v->isint ? (lua_Number) v->i : v->n; }
    if (v->type == LUA_TSTRING) { char *e; double r = strtod(v->s, &e); if (*v->s && !*e) { if (isnum) *isnum = 1; return r; } }
    return 0;
}
int lua_toboolean(lua_State *L, int idx) {
    Value *v = at(L, idx);
    if (v->type == LUA_TNIL || v->type == LUA_TNONE) return 0;
    if (v->type == LUA_TBOOLEAN) return (int) v->i;
    return 1;
}
const char *lua_tolstring(lua_State *L, int idx, size_t *len) {
    Value *v = at(L, idx);
    if (v->type == LUA_TSTRING) { if (len) *len = strlen(v->s); return v->s; }
    if (v->type == LUA_TNUMBER) {
        char buf[64];
        if (v->isint) snprintf(buf, sizeof buf, "%lld", v->i); else snprintf(buf, sizeof buf, "%.14g", v->n);
        v->s = strdup(buf); if (len) *len = strlen(v->s); return v->s;   /* like Lua: converts in place conceptually */
    }
    if (len) *len = 0;
    return NULL;
}
void *lua_touserdata(lua_State *L, int idx) { Value *v = at(L, idx); return v->type == LUA_TUSERDATA ? v->ud : NULL; }
void lua_pushnil(lua_State *L) { push(L, nilv()); }
void lua_pushinteger(lua_State *L, lua_Integer n) { Value v = nilv(); v.type = LUA_TNUMBER; v.isint = 1; v.i = n; push(L, v); }
void lua_pushnumber(lua_State *L, lua_Number n) { Value v = nilv(); v.type = LUA_TNUMBER; v.isint = 0; v.n = n; push(L, v); }
void lua_pushboolean(lua_State *L, int b) { Value v = nilv(); v.type = LUA_TBOOLEAN; v.i = b ? 1 : 0; push(L, v); }
const char *lua_pushstring(lua_State *L, const char *s) {
    Value v = nilv();
    if (!s) { push(L, v); return NULL; }
    v.type = LUA_TSTRING; v.s = strdup(s); push(L, v); return v.s;
}
void lua_pushvalue(lua_State *L, int idx) { push(L, *at(L, idx)); }
void lua_pushcfunction(lua_State *L, lua_CFunction f) { Value v = nilv(); v.type = LUA_TFUNCTION; v.f = f; push(L, v); }
void *lua_newuserdata(lua_State *L, size_t sz) {
    Value v = nilv(); v.type = LUA_TUSERDATA; v.ud = calloc(1, sz ? sz : 1); push(L, v); return v.ud;
}
void lua_createtable(lua_State *L, int narr, int nrec) { (void) narr; (void) nrec; Value v = nilv(); v.type = LUA_TTABLE; v.t = newtab(L, NULL); push(L, v); }
int lua_setmetatable(lua_State *L, int idx) {
    Value m = *at(L, -1);
    Value *o = at(L, idx);
    L->top--;
    if (o->type == LUA_TUSERDATA) o->meta = m.type == LUA_TTABLE ? m.t : NULL;
    else if (o->type == LUA_TTABLE) o->t->meta = m.type == LUA_TTABLE ? m.t : NULL;
    return 1;
}
void lua_setfield(lua_State *L, int idx, const char *k) {
    Value v = *at(L, -1);
    Value *t = at(L, idx);
    if (t->type == LUA_TTABLE) tset(t->t, k, v);
    L->top--;
}
int lua_getfield(lua_State *L, int idx, const char *k) {
    Table *t = NULL;
    if (idx == LUA_REGISTRYINDEX) t = &L->registry; else { Value *v = at(L, idx); if (v->type == LUA_TTABLE) t = v->t; }
    Value *p = t ? tget(t, k) : NULL;
    push(L, p ? *p : nilv());
    return at(L, -1)->type;
}
int luaL_newmetatable(lua_State *L, const char *tname) {
    Value *p = tget(&L->registry, tname);
    if (p) { push(L, *p); return 0; }
    Value v = nilv(); v.type = LUA_TTABLE; v.t = newtab(L, tname);
    tset(&L->registry, tname, v); push(L, v); return 1;
}
void luaL_setfuncs(lua_State *L, const luaL_Reg *l, int nup) {
    (void) nup;
    Value *t = at(L, -1);
    for (; l && l->name; l++) { Value v = nilv(); v.type = LUA_TFUNCTION; v.f = l->func; if (t->type == LUA_TTABLE) tset(t->t, l->name, v); }
}
void luaL_register(lua_State *L, const char *libname, const luaL_Reg *l) {
    if (libname) { Value v = nilv(); v.type = LUA_TTABLE; v.t = newtab(L, libname); push(L, v); }
    luaL_setfuncs(L, l, 0);
}
int luaL_error(lua_State *L, const char *fmt, ...) {
    va_list ap; va_start(ap, fmt); vsnprintf(L->err, sizeof L->err, fmt, ap); va_end(ap);
    if (L->jb_set) longjmp(L->jb, 1);
    fprintf(stderr, "emu: unprotected error: %s\n", L->err); abort();
}
void *luaL_checkudata(lua_State *L, int idx, const char *tname) {
    Value *v = at(L, idx);
    Value *m = tget(&L->registry, tname);
    if (v->type == LUA_TUSERDATA && m && v->meta == m->t) return v->ud;
    luaL_error(L, "bad argument #%d (%s expected)", idx, tname);
    return NULL;
}

/* ---------------- driver API ---------------- */
lua_State *emu_open(void) { lua_State *L = (lua_State *) calloc(1, sizeof(lua_State)); return L; }
lua_CFunction emu_lookup(lua_State *L, int idx, const char *name) {
    Value *t = at(L, idx);
    if (t->type != LUA_TTABLE) return NULL;
    Value *p = tget(t->t, name);
    return p && p->type == LUA_TFUNCTION ? p->f : NULL;
}
lua_CFunction emu_lookup_meta(lua_State *L, const char *tname, const char *name) {
    Value *m = tget(&L->registry, tname);
    if (!m) return NULL;
    Value *p = tget(m->t, name);
    if (p && p->type == LUA_TFUNCTION) return p->f;
    /* methods may live in the table stored under __index */
    Value *ix = tget(m->t, "__index");
    if (ix && ix->type == LUA_TTABLE) { p = tget(ix->t, name); if (p && p->type == LUA_TFUNCTION) return p->f; }
    return NULL;
}
int emu_table_count(lua_State *L, int idx, const char *name) {
    Value *t = at(L, idx); int n = 0;
    if (t->type != LUA_TTABLE) return 0;
    for (int i = 0; i < t->t->nent; i++) if (!strcmp(t->t->keys[i], name)) n++;
    return n;
}
/* call f on the values currently on the stack above 'base'; returns the result count or -1 on a Lua error */
int emu_pcall(lua_State *L, lua_CFunction f, int nargs) {
    /* make the arguments the whole stack of the callee, as lua_call does */
    Value save[MAXSTACK]; int nsave = L->top - nargs;
    memcpy(save, L->st, sizeof(Value) * nsave);
    memmove(L->st, L->st + nsave, sizeof(Value) * nargs);
    L->top = nargs;
    int nres;
    L->jb_set = 1;
    if (setjmp(L->jb)) { L->jb_set = 0; L->top = 0; nres = -1; }
    else { nres = f(L); L->jb_set = 0; }
    Value res[MAXSTACK]; int nr = nres > 0 ? nres : 0;
    if (nr > L->top) nr = L->top;
    memcpy(res, L->st + L->top - nr, sizeof(Value) * nr);
    memcpy(L->st, save, sizeof(Value) * nsave);
    memcpy(L->st + nsave, res, sizeof(Value) * nr);
    L->top = nsave + nr;
    return nres;
}
const char *emu_error(lua_State *L) { return L->err; }
void emu_print(lua_State *L, int idx) {
    Value *v = at(L, idx);
    switch (v->type) {
    case LUA_TNIL: printf("nil"); break;
    case LUA_TNONE: printf("none"); break;
    case LUA_TBOOLEAN: printf("b%d", (int) v->i); break;
    case LUA_TNUMBER: if (v->isint) printf("i%lld", v->i); else { long long b; memcpy(&b, &v->n, 8); printf("n%lld", b); } break;
    case LUA_TSTRING: printf("s%d:[%s]", (int) strlen(v->s), v->s); break;
    case LUA_TUSERDATA: printf("u:%s", v->meta ? v->meta->name : "?"); break;
    case LUA_TTABLE: printf("t"); break;
    default: printf("?%d", v->type);
    }
}
