#ifndef VT_EMU_H
#define VT_EMU_H
#include "lua.h"
#ifdef __cplusplus
extern "C" {
#endif
lua_State *emu_open(void);
lua_CFunction emu_lookup(lua_State *L, int idx, const char *name);
lua_CFunction emu_lookup_meta(lua_State *L, const char *tname, const char *name);
int emu_table_count(lua_State *L, int idx, const char *name);
int emu_pcall(lua_State *L, lua_CFunction f, int nargs);
const char *emu_error(lua_State *L);
void emu_print(lua_State *L, int idx);
#ifdef __cplusplus
}
#endif
#endif
