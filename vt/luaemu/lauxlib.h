#ifndef VT_LAUXLIB_H
#define VT_LAUXLIB_H
#include "lua.h"
#ifdef __cplusplus
extern "C" {
#endif
typedef struct luaL_Reg { const char *name; lua_CFunction func; } luaL_Reg;
int luaL_error(lua_State *L, const char *fmt, ...);
void *luaL_checkudata(lua_State *L, int idx, const char *tname);
int luaL_newmetatable(lua_State *L, const char *tname);
#define luaL_getmetatable(L, n) (lua_getfield(L, LUA_REGISTRYINDEX, (n)))
void luaL_setfuncs(lua_State *L, const luaL_Reg *l, int nup);
void luaL_register(lua_State *L, const char *libname, const luaL_Reg *l);
#define luaL_newlib(L, l) (lua_createtable(L, 0, 0), luaL_setfuncs(L, l, 0))
#ifdef __cplusplus
}
#endif
#endif
