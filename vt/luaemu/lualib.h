#include "lua.h"
