"""Regenerates MANIFEST.json from the table below (keeps it valid at all times)."""
from __future__ import annotations

import json
import os

VERIF = os.path.dirname(os.path.dirname(os.path.abspath(__file__)))
PY = "/venv/bin/python"

# property -> (technique, level text, level note, design ref)
CLAIMED = {
    "C13": (
        "bounded exhaustive enumeration of logical lines x line length x indent x marker on the real write_continue/write_lines, invariant oracle",
        "Every logical line over {letter, blank, TAB, FF, leading CR} up to 6 (quick) / 8-10 (thorough) characters, at every line length 1..12, "
        "indent depth 0..2, three indentation units and both continuation markers, is executed on the real splitter and checked against "
        "invariants (text preserved modulo blanks at break points, breaks only at hints, marker on every broken line, length respected when a "
        "break point allows); every directive line (and line pair) over the directive alphabet is executed on write_lines against a reference "
        "model of the documented directives; every line of every Fortran file of the 50-configuration corpus is measured against 132 columns.",
        "Alphabet: blank is the only non-hint whitespace; identifiers of ordinary length as the corpus has them. Trusted: the invariant oracle and CPython.",
        "DESIGN.md section 3 C13",
    ),
    "C12": (
        "exhaustive enumeration of splicer files (<=4/5 lines over an 11-line alphabet) on the real reader vs a reference reader; splicer name x body x supply way regeneration with block comparison; per-file round trip",
        "Every splicer file up to the line bound is read by the real get_splicers and by a reference reader written from the documentation and the resulting "
        "dictionaries compared; for every splicer name shroud emits for a four-language library, each body of a body alphabet is supplied in every way "
        "(command-line file, splicer: list, splicer_code, declaration splicer, and pairs of ways) and the regenerated block must hold the body while every other "
        "block keeps its default; every generated file of three small libraries and of the corpus is fed back as a splicer file and every block must be reproduced.",
        "Block comparison is up to leading indentation and trailing blanks (the property's own tolerance). Tags without a name are outside the alphabet.",
        "DESIGN.md section 3 C12",
    ),
    "C09": (
        "exhaustive enumeration of the declarator derivation grammar to a depth bound; derivation-vs-AST equality, parse-render-parse fixpoint, g++ static_assert(is_same) on renderings",
        "Every declaration derived from the grammar (types and specifier permutations x cv x pointer/reference chains x arrays x functions with 0-2 parameters x "
        "function pointers x attributes x defaults; 29k quick, 100k thorough) is parsed by the real parser; the recorded AST must equal the derivation that produced "
        "the text, re-parsing shroud's rendering must give the same AST, and g++ must find the C++ (and, for native types, C) rendering to denote the same type as the original.",
        "g++ 12 -std=c++11 as the meaning of C++ declarations; the derivation grammar in vt/declgen.py.",
        "DESIGN.md section 3 C09",
    ),
    "C17": (
        "exhaustive enumeration of token strings, single-token mutants, attribute grids and YAML structure mutations on the real parser / generate pass / console entry; outcome-class oracle",
        "Every token string up to length 3 over a 32-token alphabet and 5 over a 9-token core (quick; 4 and 7 thorough, 10.4M parses), every single-token deletion, "
        "insertion and substitution of the valid derivations, every attribute name x value form x site, every documented illegal attribute combination and every "
        "single structural mutation of a valid YAML tree is run; each run must end accepted or with a RuntimeError/SystemExit/NotImplementedError diagnostic, "
        "accepted text must be bracket balanced with every token accounted for in shroud's own rendering, valid derivations must be accepted, misuse with a dedicated diagnostic must get it.",
        "Token accounting treats attribute values as opaque text and cv/storage words as idempotent. 36 unvalidated-YAML/attribute call sites are listed as known findings.",
        "DESIGN.md section 3 C17",
    ),
    "C07": (
        "explicit-state exploration of in-process run histories (all sequences to depth 3/4 over colliding libraries) with canonical registry-state hashing; byte equality with fresh-process output; exhaustive small sets for seeds/cwd/env/dirty outdir/patched clock",
        "Every sequence of main_with_args runs up to depth 3 (quick: 258 histories over 6 libraries; thorough: depth 3 over 16 libraries plus depth 4 over the core, 5.6k histories) "
        "executes in one interpreter; after each history the process-wide registries (type table, statement tables, helper tables, destructor tables) are hashed into a canonical "
        "state and the last run's output directory must be byte-identical to the same library generated by a fresh interpreter. Each library is also generated under nine hash "
        "seeds, absolute paths from two directories, two environments, a pre-populated output directory and two patched clocks/hosts/pids; all outputs must be identical.",
        "Nine PYTHONHASHSEED values, not all; .log/.json debug dumps excluded; setup.py (embeds the output path) compared only between runs given the same relative path.",
        "DESIGN.md section 3 C07",
    ),
    "C14": (
        "exhaustive enumeration of equivalent description pairs (setting x value x container placement, inline vs attrs, CLI/YAML splits, block groupings, create_wrapper) with byte equality of whole output directories",
        "For every function-scoped option and format field, every container (library, namespace, class, block in class, block in namespace; library and block of a C library) "
        "and a non-default value, the output with the setting on the container must be byte-identical to the output with it on every function inside and nowhere else; every "
        "documented attribute inline vs attrs/fattrs; every split of a six-option set between --option/--language and the YAML (and overriding); every grouping of a five-declaration "
        "list into empty blocks; create_wrapper vs the command line on three descriptions.",
        "The list of function-scoped settings was vetted against the code; CXX_this (class-level) and, on containers holding a class, the F_name_*_template options are excluded because the container consumes them itself.",
        "DESIGN.md section 3 C14",
    ),
    "C15": (
        "exhaustive enumeration of wrap-flag combinations, per-declaration override vectors and output-directory assignments; directory snapshot / file list / content oracles on real runs",
        "All 12 admissible library-level wrap_c/fortran/python/lua combinations on three descriptions, all 3^3 override vectors for three functions per language under both library "
        "defaults (flat and inside a namespace), and the 3^5 assignments of the five output-directory options (quick: those with at most two or all five set). Each run is "
        "snapshotted before and after: a language that is off writes no file, C/Fortran files are byte-identical across Python/Lua toggles, --cfiles/--ffiles list exactly the "
        "C/C++ and Fortran files written in this run, every file lies in its designated directory, and a function appears in a language's output iff its flag is on.",
        "File kinds are recognised by name. The c_<name> bind(C) interface in the Fortran module belongs to the C wrapper (wrap_c); only the Fortran API name counts as Fortran output.",
        "DESIGN.md section 3 C15",
    ),
    "C16": (
        "exhaustive enumeration of the 32 option subsets (global and per declaration) with comment-stripped text equality of every generated file; corpus under each global option",
        "Every subset of {debug, doxygen, show_splicer_comments, version stamping, literalinclude on declarations} flipped from its default, set globally and on every single "
        "declaration, on three (thorough: four) descriptions, and each global option plus all together on the corpus: the set of files must be unchanged and every C/C++/Fortran/"
        "Python-extension/Lua file must be identical after removing comments and blank lines.",
        "Comment stripper: //, /* */, Fortran ! outside character literals. The *_types.yaml data file is not compared.",
        "DESIGN.md section 3 C16",
    ),
    "C08": (
        "exhaustive enumeration of function families (overload sets x trailing defaults x suffix modes x fortran_generic x template lists x scope) with a name model predicting C entry points, Fortran specifics/generics and method-table keys",
        "Every overload set of size 1-3 over five argument lists with every admissible number of trailing defaults (callable signatures pairwise distinct), in every suffix mode "
        "(sequence numbers, explicit function_suffix/default_arg_suffix, mixed, fortran_generic), template instantiation lists with default and explicit template_suffix, at library, "
        "namespace, nested-namespace and class scope, next to a second camel-case family, is generated by the real shroud (529 libraries quick, 1322 thorough). The emitted C "
        "definitions, Fortran procedures, generic interfaces / type-bound generics and PyMethodDef / luaL_Reg tables are parsed and must equal the model's prediction: one entry point "
        "per callable signature, all names distinct, each generic listing exactly its specifics, names following the documented templates.",
        "Argument types are int/double only (no bufferify companions). Exhaustive below the stated bound; nothing is sampled above it.",
        "DESIGN.md section 3 C08",
    ),
    "C11": (
        "exhaustive enumeration of enumerations over the bounded expression grammar; four-way agreement of g++ (original), gcc (generated header), gfortran (generated module) and a model",
        "Every enumeration of 1-3 members whose explicit values are drawn from the expression grammar to depth 1 (quick, 2.5k enums) / 2 (thorough, 21k enums) - literals, unary sign, "
        "+ - * /, parentheses, references to earlier members - plain and scoped, at library, namespace and class scope, is declared to the real shroud, 150 per library. Every "
        "enumerator's value is printed by a C++ program compiled from the original declaration, a C program compiled against the generated header and a Fortran program using the "
        "generated module, and all three must equal the model's value; a header or module that does not compile is attributed to the enum on the failing line.",
        "gcc/g++/gfortran 12 as the meaning of the languages; values within int range; division by zero excluded.",
        "DESIGN.md section 3 C11",
    ),
    "C06": (
        "explicit-state breadth-first search over a reference ownership model (handle slots, pending string/array/vector contexts); every model transition executed on the generated capsule API against an instrumented allocator and object registry; same histories under AddressSanitizer",
        "A library with a wrapped class (constructor, destructor, method), functions returning caller-owned, library-owned and by-value instances, std::string results by value / reference / "
        "owned and borrowed pointer, owned and borrowed arrays, a vector out-argument and string in-arguments is wrapped by the real shroud. The model's state is who owns what; the search "
        "visits every reachable model state to depth 4 (thorough 5) and executes every enabled (state, operation) transition on the generated C API (the entry points Fortran calls) in a "
        "fresh process: construct, call, copy handle, explicit destructor, release through the capsule destructor, release again, result fetch and copy-and-free. After every step the "
        "library's registry of live objects, double-destruction and library-object-destruction events, operator new/delete and malloc/free balances and the capsule fields must equal the "
        "model; all histories to depth 3 also run without state merging and everything runs again under AddressSanitizer + LeakSanitizer. The same model is driven through the "
        "generated Fortran module (class handles, capsule finaliser via deallocate, type-bound delete; depth 3/4 plus unmerged depth 3) and through the CPython 3.12 extension "
        "(reference drop, aliases, list-mode results; per-counter oracle). The library also has a +free_pattern result, empty and long std::string results, char**, std::string& inout, "
        "+charlen out, vector and vector-of-string arguments with exact-size heap buffers.",
        "Operations through a handle whose object was released through an alias are caller errors and are not generated. gcc 12 / gfortran 12 / CPython 3.12. Four Python release defects are known findings.",
        "DESIGN.md section 3 C06",
    ),
    "C05": (
        "exhaustive enumeration of (library, language, wrapper subset, F_CFI, formatting, line length) configurations; compilers and linker as oracle; failing libraries bisected to single functions",
        "(a) each of the 50 upstream corpus configurations is generated; the 33 that have a wrapped library under regression/run are compiled and linked with it and upstream's own "
        "Fortran test program is built and run; (b) every library assembled from the atom table (each atom alone, pairs) x {c, c++} x wrapper subsets x F_CFI; (c) the formatting product "
        "{debug, doxygen, literalinclude, show_splicer_comments} x line lengths. Every header is compiled alone as C and as C++, every C/C++ source compiled, Fortran modules in dependency "
        "order, Python sources against CPython 3.12 headers, Lua sources against the reference emulator's headers, and objects linked with the wrapped library under --no-undefined.",
        "gcc/g++/gfortran 12 and CPython 3.12 only; numpy- and MPI-dependent files are skipped and counted. Eight defect classes (mostly F_CFI with std::vector, Python with vectors/enums) are known findings.",
        "DESIGN.md section 3 C05",
    ),
    "C10": (
        "exhaustive enumeration of (destination length, source length, content) for every C/C++ string helper extracted from shroud's own output, byte-exact reference, guard bytes and AddressSanitizer; exhaustive Fortran end-to-end sweep of string atoms",
        "The helper sources written by `shroud --write-helpers` (ShroudStrCopy, ShroudStrBlankFill, ShroudLenTrim, ShroudStrAlloc/Free, ShroudStrArrayAlloc/Free, ShroudStrToArray, copy_string; C and C++ "
        "variants) are compiled into a harness and run on every length 0..5 (thorough 0..7) and every content over {a, b, blank}, with exact-size heap buffers between guard bytes, plain and under "
        "AddressSanitizer (121k cases quick); observed bytes must equal a Python reference of the documented rule. End to end, every string atom (char*, std::string by value/reference/pointer, "
        "in/out/inout, results with and without +len) is called from Fortran through freshly generated wrappers with every text of length 0..3 (4) over {a, blank} and every declared length, c and c++, F_CFI off and on.",
        "Preconditions per helper as its call sites establish them. gcc/g++/gfortran 12.",
        "DESIGN.md section 3 C10",
    ),
    "C01": (
        "exhaustive enumeration of functions assembled from the atom table (L1 each atom alone, L2 ordered pairs, L3 triples) x value alphabets x {c,c++} x F_CFI x debug; generated wrappers compiled and executed against an instrumented library; reference-model trace equality",
        "Every argument atom and result atom of the admitted grammar alone, every ordered pair over atom-class representatives (and, thorough, triples over eight colliding classes), "
        "with trailing defaults reached through the generic name, is wrapped by the real shroud for {c, c++} x {F_CFI off, on} x {debug}; the generated C and Fortran wrappers are compiled "
        "with an instrumented subject library and a generated Fortran driver performs every call over the product of the atoms' value alphabets (boundary integers/reals, blank-containing "
        "and full-length strings, arrays of length 0/1/3). The library's RECV trace and the driver's observations must equal the reference model line by line (15.7k calls quick). "
        "Families that share one Fortran generic name - every overload set of size 2-3 over eight signatures, every instantiation list of a function template over four types, "
        "fortran_generic lists - are called through the generic name with typed actual arguments and the tag the subject logs says which entry point ran. A caller that does not "
        "compile against a module that does, or a function that cannot be generated/built for a reason property C05 does not already record, is a violation.",
        "Functions that do not generate or build are property C05's subject and are listed as uncovered here. Value alphabets are boundary sets, not all values.",
        "DESIGN.md section 3 C01",
    ),
    "C02": (
        "exhaustive enumeration of C++ functions assembled from the atom table x value alphabets x {default, customised} naming, plus a class/namespace/overload scenario; generated C API driven by a C program; reference-model trace equality",
        "Every C++ library assembled from the atom table (each atom alone, ordered pairs; atoms that have a plain C entry point) is wrapped by the real shroud and driven by a generated C "
        "program that includes only the generated headers and calls every function over the product of the value alphabets, under the default names and under a customised C_prefix and "
        "C_name_template (each C name is predicted from the documented template). A fixed scenario adds constructors/destructors, const/static/instance methods on two objects (right 'this'), "
        "class arguments by pointer and reference, class results by pointer (library- and caller-owned) and by value, enums, overloads, each default arity, template instances, argument order "
        "and nested namespaces. The library's RECV trace and the C caller's observations must equal the reference model line by line.",
        "std::vector arguments/results and std::string results by value have no plain C entry point (covered through Fortran in C01).",
        "DESIGN.md section 3 C02",
    ),
    "C04": (
        "exhaustive pairwise comparison of every bind(C) interface / derived type / constant of every generated module against the C declarations, through two compiler-derived views (gfortran -fc-prototypes, clang JSON AST) reduced to ABI classes",
        "For the 50 corpus configurations and every library assembled from the atom table x {c, c++} x {F_CFI off, on}, each generated Fortran module is given to gfortran -fc-prototypes, "
        "which prints the C prototype it assumes for every bind(C) interface body and the C struct for every bind(C) type; clang's JSON AST of the generated headers, the utility sources "
        "and the wrapped library's header gives the declarations that exist. Name by name: the C function must exist, arity and order must agree, every parameter and the result must fall "
        "in the same ABI class (family, size, by value / pointer, pointee; descriptor arguments under F_CFI), derived types must match their C struct field by field (by layout), and the "
        "SH_TYPE_* tables must have equal values (1.8k interfaces quick, 4k thorough).",
        "Signedness and typedef spelling are ignored; type(C_PTR)/void* matches any object pointer. A module gfortran rejects is reported by C05, not here.",
        "DESIGN.md section 3 C04",
    ),
    "C18": (
        "exhaustive enumeration of argument stacks (0..arity+1 values over nil/boolean/number/string/userdata) for every registered function and method, executed on a reference Lua C-API emulator; dispatch model",
        "The Lua binding the real shroud generates for a library of scalar/bool/string functions, overload sets distinguishable by count and Lua type, trailing defaults (up to three "
        "parameters) and a class with constructor, destructor and methods is compiled against a reference emulator of the Lua C API (vt/luaemu) and every registered function is invoked with "
        "every argument stack up to arity+1 over the Lua value alphabet (5.3k invocations quick, 9.4k+ thorough). The model selects the signature by argument count and Lua types in "
        "declaration order; the library's per-call RECV lines, the pushed results and the reported result count must match, a stack matching no signature must raise a Lua error, and no call may crash.",
        "No Lua interpreter is installed: behaviour is relative to the emulator (Lua 5.3 semantics for the API subset wrapl.py emits). Four defect classes are known findings.",
        "DESIGN.md section 3 C18",
    ),
    "C03": (
        "exhaustive enumeration of functions from the numpy-free atom rows x call plans x positional/keyword split points x omitted defaults x wrong-type menus, executed in a child CPython importing the compiled extension; reference-model equality of returns and per-call RECV trace",
        "Every argument and result atom of the numpy-free subset alone and in ordered pairs, language c and c++, is wrapped by the real shroud with PY_array_arg=list, compiled as a "
        "CPython 3.12 extension and imported by a child interpreter. For each call plan every split point between positional and keyword arguments, every number of omitted trailing "
        "defaults, each argument position with each value of a wrong-type menu, and extra / missing / unknown-keyword calls are performed (5k calls quick, 18k thorough). The returned "
        "object(s) (result followed by out/inout arguments, single object or tuple) and, call by call, what the library received must equal the model; refused calls must raise "
        "TypeError/ValueError without reaching the library; the caller's own argument objects must be unchanged.",
        "CPython 3.12 only. Functions that do not build are C05's subject. Four defect classes are known findings.",
        "DESIGN.md section 3 C03",
    ),
}

# what later rounds added to the explored space of a check (appended to its level text)
ADDED = {
    "C01": " Later additions: pointer references and raw / const pointer-to-pointer out arguments, allocatable out arrays and inout vectors, void ** / void *& arguments, +cdesc input, implied len / len_trim, deref(raw|scalar) and void * results (the statement-table entries a coverage report showed to be compiled but never executed); every result atom again under return_scalar_pointer: scalar.",
    "C02": " The scenario also holds overload pairs that differ only in the constness of a class argument and class results from a function two namespaces below the class, released through the library's memory destructor.",
    "C03": " The scenario also holds an inout struct-as-class argument called five times with the reference count and identity of the caller's object observed.",
    "C04": " The shape of fixed-size array members of bind(C) types is read from the module text and compared with the C extents in reverse order.",
    "C05": " return_scalar_pointer on native and struct pointer results and a library class used inside a namespace are in the feature alphabet (findings recorded).",
    "C07": " The alphabet holds a library with user splicer code in every language; pre-populated output directories hold unrelated, empty, truncated, longer and identical versions of every file.",
    "C08": " Every 'module procedure' of a generic interface must be a procedure the module defines; class templates with three instantiations carry a member with a default_arg_suffix list.",
    "C09": " The predicates is_pointer / is_reference / is_indirect are compared with the written chain; every ordered pair of eight small libraries created in one interpreter must read four probe declarations as when alone.",
    "C10": " The end-to-end sweep also holds arrays of strings and implied lengths; a string function that cannot be called at all is a violation unless property C05 records the reason.",
    "C11": " Enumerators at both ends of the int range and next to them are in the alphabet.",
    "C12": " For every block name and way of supplying code the output under show_splicer_comments: false equals the output with comments minus the marker lines.",
    "C13": " A line length given on a namespace, nested namespace, class or function must leave the files of the scopes around it byte-identical.",
    "C14": " create_wrapper is also compared with the command line after each of three earlier libraries went through it in the same interpreter; attributes on arguments that fortran_generic declarations restate are in the attribute relation.",
    "C15": " Two libraries processed one after the other in one interpreter: each run's file lists name that run's files.",
    "C17": " Names of inner scopes declared by earlier declarations of the same library (template parameters, class members, namespace typedefs) used bare later must be refused, their qualified forms accepted.",
    "C18": " At library level the overloads of one name are spread out between other declarations.",
}

PENDING_REASON = "check not built yet in this round (planned, see DESIGN.md section 8); not claimed until it runs"


def main():
    props = [json.loads(l) for l in open(os.path.join(VERIF, "properties.jsonl")) if l.strip()]
    checks = []
    na = []
    for p in props:
        pid = p["id"]
        if pid in CLAIMED:
            tech, text, note, ref = CLAIMED[pid]
            text += ADDED.get(pid, "")
            checks.append({
                "property_id": pid,
                "quick_cmd": "%s -m vt.run %s --tier quick" % (PY, pid),
                "thorough_cmd": "%s -m vt.run %s --tier thorough" % (PY, pid),
                "evidence_file": "/verif/evidence/%s.json" % pid,
                "replay_cmd_template": "%s -m vt.run %s --replay {path}" % (PY, pid),
                "engine": "vt",
                "level_claimed": {"category": "model_checking", "text": text, "design_ref": ref},
                "level_note": note,
                "technique": tech,
            })
        else:
            na.append({"property_id": pid, "reason": NOT_APPLICABLE.get(pid, PENDING_REASON)})
    man = {
        "version": 1,
        "setup_cmd": "%s -m vt.selfcheck" % PY,
        "hooks": {
            "guard": "SHROUD_VERIF",
            "enable": "no source hooks: checks import the working tree of /repo directly (SHROUD_VERIF is reserved and set by the runner but read nowhere in /repo)",
            "baseline_off_cmd": "cd /repo && /venv/bin/python -m pytest -ra -q -p no:cacheprovider --timeout=900 --continue-on-collection-errors",
            "source_commits": [],
            "add_only": True,
        },
        "engines": [{
            "name": "vt",
            "path": "/verif/vt",
            "serves_properties": sorted(CLAIMED),
            "kind_free_text": "hand-written bounded exhaustive explorer in Python driving the real shroud package (and compilers for generated code); explicit-state search with canonical state hashing where state persists between steps",
        }],
        "checks": checks,
        "not_applicable": na,
        "notes": "All commands run with cwd=/verif. Checks take --repo DIR (default /repo). See DESIGN.md.",
    }
    with open(os.path.join(VERIF, "MANIFEST.json"), "w") as fp:
        json.dump(man, fp, indent=1)
        fp.write("\n")


NOT_APPLICABLE = {}

if __name__ == "__main__":
    main()
