"""Detection demonstration: apply small property-breaking edits to a scratch copy of the
repository and confirm the check reports a VIOLATION (and, with --tests, that the pinned
test suite still passes on the edited copy).

    python -m vt.mutants [PROP ...] [--tests] [--tier quick]

The table lives in vt/mutants_table.py: (property, name, file, old text, new text).
Nothing here touches /repo; scratch copies live under a temp dir and are removed.
"""
from __future__ import annotations

import argparse
import os
import shutil
import subprocess
import sys
import tempfile
import time

from .mutants_table import MUTANTS

PY = "/venv/bin/python"
VERIF = os.path.dirname(os.path.dirname(os.path.abspath(__file__)))


def make_copy(repo, dst):
    subprocess.check_call(
        ["rsync", "-a", "--exclude", ".git", "--exclude", "__pycache__", "--exclude", "docs", "--exclude", "pdf",
         "--exclude", "dist-nuitka", repo.rstrip("/") + "/", dst + "/"]
    )


def apply(dst, relfile, old, new, count=1):
    p = os.path.join(dst, relfile)
    with open(p) as fp:
        s = fp.read()
    if s.count(old) < 1:
        raise SystemExit("mutant text not found in %s: %r" % (relfile, old))
    s = s.replace(old, new, count)
    with open(p, "w") as fp:
        fp.write(s)


def run_tests(dst):
    env = dict(os.environ)
    env["PYTHONPATH"] = dst
    env.pop("SHROUD_VERIF", None)
    r = subprocess.run(
        [PY, "-m", "pytest", "-q", "-p", "no:cacheprovider", "-x", "tests/test_ast.py", "tests/test_declast.py",
         "tests/test_generate.py", "tests/test_statements.py", "tests/test_util.py", "tests/test_wrapp.py"],
        cwd=dst, env=env, capture_output=True, text=True, errors="replace")
    tail = (r.stdout.strip().splitlines() or [""])[-1]
    return r.returncode == 0, tail


def main():
    ap = argparse.ArgumentParser()
    ap.add_argument("props", nargs="*")
    ap.add_argument("--tests", action="store_true")
    ap.add_argument("--tier", default="quick")
    ap.add_argument("--name", default=None)
    ap.add_argument("--repo", default="/repo")
    args = ap.parse_args()
    want = [p.upper() for p in args.props]
    rows = [m for m in MUTANTS if (not want or m[0] in want) and (not args.name or args.name in m[1])]
    base = tempfile.mkdtemp(prefix="vt-mut-")
    failed = 0
    try:
        for prop, name, relfile, old, new in rows:
            dst = os.path.join(base, "r")
            if os.path.exists(dst):
                shutil.rmtree(dst)
            make_copy(args.repo, dst)
            edits = [(relfile, old, new)] if isinstance(relfile, str) else list(zip(relfile, old, new))
            for f, o, n in edits:
                apply(dst, f, o, n)
            tests = ""
            if args.tests:
                ok, tail = run_tests(dst)
                tests = " tests=%s(%s)" % ("pass" if ok else "FAIL", tail)
            t0 = time.time()
            env = dict(os.environ)
            env["VT_NO_EVIDENCE"] = "1"
            r = subprocess.run([PY, "-m", "vt.run", prop, "--tier", args.tier, "--repo", dst],
                               cwd=VERIF, capture_output=True, text=True, errors="replace", env=env)
            viol = [ln for ln in r.stdout.splitlines() if ln.startswith("VIOLATION")]
            detected = r.returncode == 1 and bool(viol)
            if not detected:
                failed += 1
            print("%s %-44s %s rc=%d violations=%d %.0fs%s" % (
                prop, name, "DETECTED" if detected else "MISSED  ", r.returncode, len(viol), time.time() - t0, tests))
            if not detected:
                print("    " + "\n    ".join((r.stdout + r.stderr).strip().splitlines()[-6:]))
            else:
                for ln in r.stdout.splitlines():
                    if ln.startswith("  what:"):
                        print("    " + ln.strip()[:200])
                        break
            sys.stdout.flush()
    finally:
        shutil.rmtree(base, ignore_errors=True)
    return 1 if failed else 0


if __name__ == "__main__":
    sys.exit(main())
