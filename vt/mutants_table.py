"""(property, name, file, old, new) - realistic edits that keep the pinned tests green."""

MUTANTS = [
    # ---------------- C13
    ("C13", "lstrip->strip", "shroud/util.py", "part = part.lstrip()", "part = part.strip()"),
    ("C13", "nparts>=0", "shroud/util.py", "if nparts > 0:\n                    dump = True", "if nparts >= 0:\n                    dump = True"),
    ("C13", "skip-single-blank-part", "shroud/util.py", "            if save:\n                subline += part",
     "            if save and part != \" \":\n                subline += part"),
    ("C13", "linelen-vs-part-only", "shroud/util.py", "elif len(subline) + len(part) > linelen:", "elif len(part) > linelen:"),
    ("C13", "cont-marker-dropped-on-ff", "shroud/util.py", "                fp.write(subline + self.cont + \"\\n\")",
     "                fp.write(subline + (self.cont if save else \"\") + \"\\n\")"),
    ("C13", "plus-directive-keeps-minus", "shroud/util.py", "self.write_continue(fp, subline[1:-1], spaces)", "self.write_continue(fp, subline[1:], spaces)"),
    ("C13", "deindent-once", "shroud/util.py", "                        while subline[0] == \"-\":", "                        if subline[0] == \"-\":"),
    # ---------------- C12
    ("C12", "reader-strip", "shroud/splicer.py", "save.append(line.rstrip())", "save.append(line.strip())"),
    ("C12", "default-before-user", "shroud/util.py",
     "        elif name in self.splicer_stack[-1]:\n            code = self.splicer_stack[-1][name]\n            out.extend(code)\n        elif default is not None:\n            out.extend(default)",
     "        elif default is not None:\n            out.extend(default)\n        elif name in self.splicer_stack[-1]:\n            code = self.splicer_stack[-1][name]\n            out.extend(code)"),
    ("C12", "pop-keeps-path", "shroud/util.py",
     "        if self.splicer_names:\n            self.splicer_path = \".\".join(self.splicer_names) + \".\"\n        else:\n            self.splicer_path = \"\"",
     "        if not self.splicer_names:\n            self.splicer_path = \"\""),
    ("C12", "user-code-truncated-to-20-lines", "shroud/util.py", "            out.extend(code)\n", "            out.extend(code[:2])\n"),
    ("C12", "decl-splicer-loses-to-splicer_code", "shroud/wrapf.py", "        if \"f\" in node.splicer:", "        if \"f\" in node.splicer and sname not in self.splicer_stack[-1]:"),
    ("C12", "reader-drops-leading-blank-lines", "shroud/splicer.py", "                    save.append(line.rstrip())", "                    if save or line.strip():\n                        save.append(line.rstrip())"),
    ("C12", "reader-end-tag-any", "shroud/splicer.py", "                    if begin_tag != end_tag:", "                    if False:"),
    ("C12", "nested-top-not-reset", "shroud/splicer.py", "                    top[begin_subtag] = save\n                    top = out", "                    top[begin_subtag] = save"),
    ("C12", "revert-splicer_code-merge", "shroud/main.py", "util.update(splicers, allinput[\"splicer_code\"])", "splicers.update(allinput[\"splicer_code\"])"),
]
