"""(property, name, file, old, new) - realistic edits that keep the pinned tests green."""

MUTANTS = [
    # ---------------- C13
    ("C13", "lstrip->strip", "shroud/util.py", "part = part.lstrip()", "part = part.strip()"),
    ("C13", "nparts>=0", "shroud/util.py", "if nparts > 0:\n                    dump = True", "if nparts >= 0:\n                    dump = True"),
    ("C13", "skip-single-blank-part", "shroud/util.py", "            if save:\n                subline += part",
     "            if save and part != \" \":\n                subline += part"),
    ("C13", "linelen-vs-part-only", "shroud/util.py", "elif len(subline) + len(part) > linelen:", "elif len(part) > linelen:"),
    ("C13", "cont-marker-dropped-on-ff", "shroud/util.py", "                fp.write(subline + self.cont + \"\\n\")",
     "                fp.write(subline + (self.cont if save else \"\") + \"\\n\")"),
    ("C13", "plus-directive-keeps-minus", "shroud/util.py", "self.write_continue(fp, subline[1:-1], spaces)", "self.write_continue(fp, subline[1:], spaces)"),
    ("C13", "deindent-once", "shroud/util.py", "                        while subline[0] == \"-\":", "                        if subline[0] == \"-\":"),
]
