"""Maintenance tool (not a property check): regenerate the upstream corpus from a repo
working tree and compare byte-for-byte with regression/reference (used to show that a
`fix:` commit does not disturb any upstream expected output).

    python -m vt.refcheck [--repo DIR]
"""
from __future__ import annotations

import argparse
import os
import shutil
import sys
import tempfile

from . import common


def main():
    ap = argparse.ArgumentParser()
    ap.add_argument("--repo", default="/repo")
    args = ap.parse_args()
    repo = common.use_repo(args.repo)
    from . import corpus, isolate

    base = tempfile.mkdtemp(prefix="vt-ref-")
    bad = 0
    try:
        res = corpus.generate_all(repo, base)
        for name in sorted(res):
            cfg, out, r = res[name]
            ref = os.path.join(repo, "regression", "reference", name)
            if r.status != "ok":
                print("FAIL %s: %s %s" % (name, r.exc, r.msg))
                bad += 1
                continue
            a = isolate.read_tree(ref, skip_ext=(".log",))
            b = isolate.read_tree(out, skip_ext=(".log",))
            a.pop("output", None)
            for k in list(a):
                if k.startswith(("pybindgen", "cython", "swig")):
                    a.pop(k)
            if a != b:
                bad += 1
                print("DIFF %s" % name)
                for m in isolate.diff_trees(a, b):
                    print(m)
        print("%d configurations, %d differ from regression/reference" % (len(res), bad))
    finally:
        shutil.rmtree(base, ignore_errors=True)
    return 1 if bad else 0


if __name__ == "__main__":
    sys.exit(main())
