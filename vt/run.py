"""Entry point: python -m vt.run <PROPERTY> --tier quick|thorough [--repo DIR] [--replay FILE]"""
from __future__ import annotations

import argparse
import importlib
import os
import sys
import traceback


def main(argv=None):
    ap = argparse.ArgumentParser()
    ap.add_argument("prop")
    ap.add_argument("--tier", default=os.environ.get("VERIF_TIER", "quick"), choices=["quick", "thorough"])
    ap.add_argument("--repo", default=os.environ.get("VT_REPO", "/repo"))
    ap.add_argument("--replay", default=None)
    args = ap.parse_args(argv)
    prop = args.prop.upper()
    try:
        seed = int(os.environ.get("VERIF_SEED", "0"))
    except ValueError:
        seed = 0
    os.environ.setdefault("PYTHONHASHSEED", "0")
    sys.dont_write_bytecode = True

    from . import common

    repo = common.use_repo(args.repo)
    ctx = common.Ctx(prop, args.tier, repo, seed, replay=args.replay)
    try:
        mod = importlib.import_module("vt.checks.%s" % prop.lower())
    except ImportError:
        traceback.print_exc()
        print("vt: no check for %s" % prop)
        return 2
    try:
        if args.replay:
            mod.replay(ctx, args.replay)
        else:
            mod.run(ctx)
    except KeyboardInterrupt:
        raise
    except BaseException:
        # An error of the machinery itself: never reported as a property violation.
        traceback.print_exc()
        print("vt: INTERNAL ERROR in check %s (not a property verdict)" % prop)
        return 2
    return ctx.finish()


if __name__ == "__main__":
    sys.exit(main())
