"""Intake of the changes a sub-agent delivered: confirm each one here before it is kept.

    python -m vt.seedintake <prop, e.g. c17> <delivery dir, e.g. /tmp/seed11/out/c17> <suffix A> <suffix B> [--round N]

For SEED_A / SEED_B under the delivery directory:
  1. scratch copy of /repo (rsync, no .git) + the patch (patch -p1);
  2. the pinned suite on the copy must give 91 passed;
  3. demo/run.sh must exit 0 against /repo and non-zero against the copy;
  4. copy patch.diff, demo/, notes.md to /verif/seeded/<prop><suffix>/ and write meta.json (detection fields filled in later);
  5. run the property's quick check against the copy (--repo) and report detected / MISSED.
The scratch copy is removed.  /repo itself is never touched.
"""
from __future__ import annotations

import json
import os
import shutil
import subprocess
import sys
import tempfile

PY = "/venv/bin/python"
VERIF = os.path.dirname(os.path.dirname(os.path.abspath(__file__)))


def intake(prop, ddir, which, suffix, rnd, checks):
    src = os.path.join(ddir, which)
    sid = prop + suffix
    out = {"id": sid}
    if not os.path.exists(os.path.join(src, "patch.diff")):
        out["status"] = "no patch.diff"
        return out
    tmp = tempfile.mkdtemp(prefix="seedintake_")
    try:
        dst = os.path.join(tmp, "repo")
        subprocess.check_call(["rsync", "-a", "--exclude", ".git", "--exclude", "__pycache__", "--exclude", "docs", "/repo/", dst + "/"])
        r = subprocess.run(["patch", "-p1", "-s", "-i", os.path.join(src, "patch.diff")], cwd=dst, capture_output=True, text=True)
        if r.returncode != 0:
            out["status"] = "patch failed: " + (r.stdout + r.stderr)[:200]
            return out
        env = dict(os.environ, PYTHONPATH=dst)
        r = subprocess.run([PY, "-m", "pytest", "-q", "-p", "no:cacheprovider", "--timeout=900", "--continue-on-collection-errors"], cwd=dst, env=env, capture_output=True, text=True)
        tail = r.stdout.strip().split("\n")[-1]
        out["suite"] = tail
        if "91 passed" not in tail or "failed" in tail:
            out["status"] = "suite not green"
            return out
        demo = os.path.join(src, "demo", "run.sh")
        r0 = subprocess.run(["sh", demo], env=dict(os.environ, SHROUD_ROOT="/repo"), capture_output=True, text=True, errors="replace", timeout=900)
        r1 = subprocess.run(["sh", demo], env=dict(os.environ, SHROUD_ROOT=dst), capture_output=True, text=True, errors="replace", timeout=900)
        out["demo_unchanged"] = r0.returncode
        out["demo_changed"] = r1.returncode
        if r0.returncode != 0 or r1.returncode == 0:
            out["status"] = "demo does not discriminate"
            out["demo_out"] = (r0.stdout + r0.stderr)[-300:] + " || " + (r1.stdout + r1.stderr)[-300:]
            return out
        sdir = os.path.join(VERIF, "seeded", sid)
        if os.path.exists(sdir):
            shutil.rmtree(sdir)
        os.makedirs(sdir)
        shutil.copy(os.path.join(src, "patch.diff"), sdir)
        if os.path.exists(os.path.join(src, "notes.md")):
            shutil.copy(os.path.join(src, "notes.md"), sdir)
        shutil.copytree(os.path.join(src, "demo"), os.path.join(sdir, "demo"))
        det = {}
        for chk in checks:
            env = dict(os.environ, VT_NO_EVIDENCE="1", VT_SCRATCH_TAG=sid)
            r = subprocess.run([PY, "-m", "vt.run", chk, "--tier", "quick", "--repo", dst], cwd=VERIF, env=env, capture_output=True, text=True, errors="replace")
            nv = sum(1 for l in r.stdout.split("\n") if l.startswith("VIOLATION"))
            det[chk] = "detected (%d)" % nv if (r.returncode == 1 and nv) else "MISSED (exit %d)" % r.returncode
            if r.returncode == 1 and nv:
                w = [l for l in r.stdout.split("\n") if l.strip().startswith("what:")]
                out["what"] = w[0].strip()[:240] if w else ""
        out["first_run"] = det
        meta = {"property": prop.upper(), "round": rnd, "also_detected_by": [], "needs": "", "detected_by": "", "strengthened": "",
                "first_run": det,
                "ran": "sub-agent worked in /tmp/seed%d/%s (worktree removed) and wrote two changes (SEED_A, SEED_B), told to avoid the mechanisms of the earlier rounds and asked to report what the unchanged code already gets wrong; here (vt.seedintake) on a scratch copy of /repo with the patch: pinned suite -> %s; SHROUD_ROOT=/repo sh demo/run.sh -> exit %d, SHROUD_ROOT=<copy> -> exit %d; the property's quick check with --repo <copy>: %s" % (
                    rnd, prop, tail, r0.returncode, r1.returncode, json.dumps(det))}
        with open(os.path.join(sdir, "meta.json"), "w") as fp:
            json.dump(meta, fp, indent=1)
        out["status"] = "kept"
        return out
    finally:
        shutil.rmtree(tmp, ignore_errors=True)


def main(argv):
    rnd = 11
    if "--round" in argv:
        i = argv.index("--round")
        rnd = int(argv[i + 1])
        del argv[i:i + 2]
    extra = []
    if "--also" in argv:
        i = argv.index("--also")
        extra = argv[i + 1].split(",")
        del argv[i:i + 2]
    prop, ddir, sa, sb = argv[:4]
    for which, suffix in (("SEED_A", sa), ("SEED_B", sb)):
        res = intake(prop, ddir, which, suffix, rnd, [prop.upper()] + extra)
        print(json.dumps(res), flush=True)
    return 0


if __name__ == "__main__":
    sys.exit(main(sys.argv[1:]))
