"""Regression of the checks themselves: every seeded change under /verif/seeded is applied to a scratch
copy of the repository (never /repo) and the check of its property must report a VIOLATION.

    python -m vt.seedsweep [id ...] [--tier quick] [--jobs 4]

Prints one line per seed and exits 1 if a seed is no longer detected (or its patch no longer applies).
"""
from __future__ import annotations

import argparse
import json
import os
import shutil
import subprocess
import sys
import tempfile
from concurrent.futures import ThreadPoolExecutor

PY = "/venv/bin/python"
VERIF = os.path.dirname(os.path.dirname(os.path.abspath(__file__)))


def one(args):
    sid, tier, repo = args[:3]
    d = os.path.join(VERIF, "seeded", sid)
    meta = json.load(open(os.path.join(d, "meta.json")))
    prop = (args[3] if len(args) > 3 and args[3] else None) or meta.get("check", meta["property"])  # the check that detects it, when it is not the property the seed was written for
    tmp = tempfile.mkdtemp(prefix="seedsweep_")
    try:
        dst = os.path.join(tmp, "repo")
        subprocess.check_call(["rsync", "-a", "--exclude", ".git", "--exclude", "__pycache__", "--exclude", "docs", repo.rstrip("/") + "/", dst + "/"])
        r = subprocess.run(["patch", "-p1", "-s", "-i", os.path.join(d, "patch.diff")], cwd=dst, capture_output=True, text=True)
        if r.returncode != 0:
            return sid, prop, "patch-failed", (r.stdout + r.stderr).strip()[:200]
        env = dict(os.environ, VT_NO_EVIDENCE="1", VT_SCRATCH_TAG=sid)
        r = subprocess.run([PY, "-m", "vt.run", prop, "--tier", tier, "--repo", dst], cwd=VERIF, env=env, capture_output=True, text=True, errors="replace")
        nv = sum(1 for l in r.stdout.split("\n") if l.startswith("VIOLATION"))
        if r.returncode == 1 and nv:
            return sid, prop, "detected", "%d violations" % nv
        return sid, prop, "MISSED", "exit %d: %s" % (r.returncode, (r.stdout.strip().split("\n") or [""])[-1][:160])
    finally:
        shutil.rmtree(tmp, ignore_errors=True)


def main():
    ap = argparse.ArgumentParser()
    ap.add_argument("ids", nargs="*")
    ap.add_argument("--tier", default="quick")
    ap.add_argument("--jobs", type=int, default=2)
    ap.add_argument("--repo", default="/repo")
    ap.add_argument("--check", default=None, help="run this check instead of the one named in meta.json")
    a = ap.parse_args()
    ids = a.ids or sorted(x for x in os.listdir(os.path.join(VERIF, "seeded")) if os.path.exists(os.path.join(VERIF, "seeded", x, "meta.json")))
    bad = 0
    with ThreadPoolExecutor(a.jobs) as ex:
        for sid, prop, st, info in ex.map(one, [(i, a.tier, a.repo, a.check) for i in ids]):
            print("%-6s %s %-12s %s" % (sid, prop, st, info), flush=True)
            bad += st != "detected"
    print("%d seeds, %d not detected" % (len(ids), bad))
    return 1 if bad else 0


if __name__ == "__main__":
    sys.exit(main())
