#!/bin/sh
# usage: vt/seedtest.sh <seed dir with patch.diff> <PROP> [tier]
# applies the seeded change to /repo, runs the check, reverts.
set -u
D=$1; P=$2; T=${3:-quick}
cd /repo || exit 2
if ! git diff --quiet; then echo "/repo has uncommitted changes"; exit 2; fi
# later upstream fixes may have moved the context of an older seed: fall back on patch(1), which tolerates offsets
git apply "$D/patch.diff" 2>/dev/null || patch -p1 -s --no-backup-if-mismatch < "$D/patch.diff" || { echo "patch does not apply"; git checkout -- .; exit 2; }
cd /verif
VT_NO_EVIDENCE=1 /venv/bin/python -m vt.run "$P" --tier "$T" > /tmp/seedtest.out 2>&1
rc=$?
git -C /repo checkout -- .
echo "check $P ($T) exit=$rc  violations: $(grep -c '^VIOLATION' /tmp/seedtest.out)"
grep -A2 '^VIOLATION' /tmp/seedtest.out | grep 'what:' | head -3 | cut -c1-300
tail -1 /tmp/seedtest.out | cut -c1-200
