"""setup_cmd: verify the toolchain the checks rely on is present; builds nothing persistent."""
from __future__ import annotations

import json
import os
import shutil
import subprocess
import sys

VERIF = os.path.dirname(os.path.dirname(os.path.abspath(__file__)))


def main():
    ok = True
    for tool in ("gcc", "g++", "gfortran", "clang", "rsync"):
        p = shutil.which(tool)
        print("%-9s %s" % (tool, p or "MISSING"))
        ok = ok and bool(p)
    try:
        import yaml  # noqa
        print("yaml      ok")
    except ImportError:
        print("yaml      MISSING")
        ok = False
    sys.path.insert(0, "/repo")
    import shroud  # noqa
    print("shroud    %s" % shroud.__file__)
    with open(os.path.join(VERIF, "MANIFEST.json")) as fp:
        man = json.load(fp)
    with open(os.path.join(VERIF, "known_findings.json")) as fp:
        json.load(fp)
    ids = [c["property_id"] for c in man["checks"]] + [n["property_id"] for n in man.get("not_applicable", [])]
    props = [json.loads(l)["id"] for l in open(os.path.join(VERIF, "properties.jsonl")) if l.strip()]
    if sorted(ids) != sorted(props):
        print("MANIFEST does not account for every property: %s" % sorted(set(props) ^ set(ids)))
        ok = False
    vt = shutil.which("python3-vt")
    if vt and os.path.exists("/root/.vp/MANIFEST.schema.json"):
        r = subprocess.run([vt, "-c", "import json,jsonschema,sys;jsonschema.validate(json.load(open(sys.argv[1])),json.load(open(sys.argv[2])))",
                            os.path.join(VERIF, "MANIFEST.json"), "/root/.vp/MANIFEST.schema.json"], capture_output=True, text=True)
        print("manifest schema: %s" % ("ok" if r.returncode == 0 else r.stderr[-400:]))
        ok = ok and r.returncode == 0
    return 0 if ok else 1


if __name__ == "__main__":
    sys.exit(main())
