"""python3-vt -m ... : validate evidence/*.json against the schema (run with python3-vt)."""
import glob, json, sys, os
import jsonschema
V = os.path.dirname(os.path.dirname(os.path.abspath(__file__)))
sch = json.load(open("/root/.vp/EVIDENCE.schema.json"))
bad = 0
for f in sorted(glob.glob(os.path.join(V, "evidence", "C*.json"))):
    try:
        jsonschema.validate(json.load(open(f)), sch)
        print("ok ", os.path.basename(f))
    except Exception as e:
        bad += 1
        print("BAD", os.path.basename(f), str(e)[:300])
sys.exit(1 if bad else 0)
